"""C07 — script interpreter vs consensus semantics (DESIGN.md section 3, C07).

Oracle: Bitcoin Core's interpreter.cpp semantics per opcode, written here over the same proxies
(spec_* functions; they also run on plain Python values, which is how replays judge a witness).
"""
import itertools

from symx import core, loader, shims
from symx.core import (SI, SBytes, SList, check, s_and, s_or, s_not, s_implies, norm, assume, bytes_env)
from vlib.run import Ob, sym_run, merge_runs

PROPERTY = "C07"

META = {
    "bounds": {
        "quick": {"number codec": "all integers in (-2^31, 2^31), all byte strings of length 0..4",
                  "single opcode": "every opcode of OP_CODE_FUNCTIONS except signature opcodes; touched operands symbolic with each length in 0..4 "
                                   "(0..2 for ternary), stack depth up to arity+3, PICK/ROLL operand symbolic 0..2 bytes over depth 0..4",
                  "conditionals": "programs of length <= 5 over {IF, NOTIF, ELSE, ENDIF, other} with symbolic condition of 0..2 bytes",
                  "timelocks": "all locktime, sequence in [0,2^32), version in [0,4], operand in [-1, 2^32-1] (as 0..5-byte script numbers)",
                  "truthiness": "final top element symbolic of length 0..4"},
        "thorough": {"number codec": "same", "single opcode": "operand lengths 0..4 for all arities, depth up to arity+4",
                     "conditionals": "programs of length <= 7", "timelocks": "same", "truthiness": "length 0..6"}},
    "outside": ["operands longer than 4 bytes to arithmetic opcodes", "OP_CODESEPARATOR, script size / op-count limits",
                "tapscript-only rules (MINIMALIF, OP_SUCCESS) — the legacy table semantics are what is compared",
                "40-operation programs are covered compositionally (per-opcode step + conditional splice + final test), not searched"],
    "stubs": ["sha256/sha1/ripemd160 as uninterpreted functions on symbolic input (same symbol on both sides)",
              "print() has an empty body"],
    "assumptions": ["Bitcoin Core interpreter.cpp semantics as transcribed in checks/c07.py spec_* functions"],
}

# ------------------------------------------------------------------------------------------------ oracle


class Fail(Exception):
    pass


def spec_num(vch, maxlen=4):
    """CScriptNum(vch, fRequireMinimal=false, nMaxNumSize=maxlen).getint64"""
    n = len(vch)
    if n > maxlen:
        raise Fail("script number overflow")
    if n == 0:
        return 0
    result = 0
    for i in range(n):
        result = result + (vch[i] << (8 * i))
    if vch[n - 1] & 0x80:
        return -(result - (0x80 << (8 * (n - 1))))
    return result


def spec_ser(v):
    """CScriptNum::serialize (minimal)"""
    if v == 0:
        return b""
    neg = v < 0
    a = -v if neg else v
    n = 1
    while not (a < (1 << (8 * n))):
        n += 1
    items = [(a >> (8 * i)) & 0xFF for i in range(n)]
    if a >= (0x80 << (8 * (n - 1))):
        items.append(0x80 if neg else 0)
    elif neg:
        items[-1] = items[-1] | 0x80
    return norm(SBytes(items))


def spec_bool(vch):
    """CastToBool"""
    n = len(vch)
    for i in range(n):
        if vch[i] != 0:
            if i == n - 1 and vch[i] == 0x80:
                return False
            return True
    return False


TRUE_V = b"\x01"
FALSE_V = b""


def _hash(algo, data):
    return shims._H(algo, data).digest()


def spec_op(opc, stack, alt, ctx=None):
    """one opcode step: returns new (stack, alt) or raises Fail.  stack: list, top at the end."""
    st = list(stack)
    al = list(alt)

    def need(n):
        if len(st) < n:
            raise Fail("stack underflow")

    def top(i):
        return st[len(st) + i]

    if opc == 0:
        st.append(b"")
    elif opc == 79:
        st.append(b"\x81")
    elif 81 <= opc <= 96:
        st.append(bytes([opc - 80]))
    elif opc == 97 or opc == 176 or 179 <= opc <= 185:
        pass
    elif opc == 105:  # VERIFY
        need(1)
        if not spec_bool(top(-1)):
            raise Fail("verify")
        st.pop()
    elif opc == 106:
        raise Fail("op_return")
    elif opc == 107:
        need(1)
        al.append(st.pop())
    elif opc == 108:
        if len(al) < 1:
            raise Fail("altstack underflow")
        st.append(al.pop())
    elif opc == 109:
        need(2)
        st.pop()
        st.pop()
    elif opc == 110:
        need(2)
        st += [top(-2), top(-1)]
    elif opc == 111:
        need(3)
        st += [top(-3), top(-2), top(-1)]
    elif opc == 112:
        need(4)
        st += [top(-4), top(-3)]
    elif opc == 113:  # 2ROT (x1 x2 x3 x4 x5 x6 -- x3 x4 x5 x6 x1 x2)
        need(6)
        a, b = top(-6), top(-5)
        del st[len(st) - 6:len(st) - 4]
        st += [a, b]
    elif opc == 114:  # 2SWAP
        need(4)
        a, b, c, d = top(-4), top(-3), top(-2), top(-1)
        st[len(st) - 4:] = [c, d, a, b]
    elif opc == 115:  # IFDUP
        need(1)
        if spec_bool(top(-1)):
            st.append(top(-1))
    elif opc == 116:
        st.append(spec_ser(len(st)))
    elif opc == 117:
        need(1)
        st.pop()
    elif opc == 118:
        need(1)
        st.append(top(-1))
    elif opc == 119:  # NIP
        need(2)
        del st[len(st) - 2]
    elif opc == 120:  # OVER
        need(2)
        st.append(top(-2))
    elif opc in (121, 122):  # PICK / ROLL
        need(2)
        n = spec_num(top(-1))
        st.pop()
        if n < 0 or n >= len(st):
            raise Fail("pick/roll range")
        k = 0
        while not (n == k):
            k += 1
        idx = len(st) - 1 - k
        v = st[idx]
        if opc == 122:
            del st[idx]
        st.append(v)
    elif opc == 123:  # ROT (x1 x2 x3 -- x2 x3 x1)
        need(3)
        a = top(-3)
        del st[len(st) - 3]
        st.append(a)
    elif opc == 124:
        need(2)
        a, b = top(-2), top(-1)
        st[len(st) - 2:] = [b, a]
    elif opc == 125:  # TUCK (x1 x2 -- x2 x1 x2)
        need(2)
        a, b = top(-2), top(-1)
        st[len(st) - 2:] = [b, a, b]
    elif opc == 130:
        need(1)
        st.append(spec_ser(len(top(-1))))
    elif opc in (135, 136):
        need(2)
        a, b = top(-2), top(-1)
        st.pop()
        st.pop()
        eq = (len(a) == len(b)) and bool(a == b)
        if opc == 136:
            if not eq:
                raise Fail("equalverify")
        else:
            st.append(TRUE_V if eq else FALSE_V)
    elif opc in (139, 140, 143, 144, 145, 146):
        need(1)
        bn = spec_num(top(-1))
        st.pop()
        if opc == 139:
            r = bn + 1
        elif opc == 140:
            r = bn - 1
        elif opc == 143:
            r = -bn
        elif opc == 144:
            r = -bn if bn < 0 else bn
        elif opc == 145:
            r = 1 if bn == 0 else 0
        else:
            r = 1 if bn != 0 else 0
        st.append(spec_ser(r))
    elif opc in (147, 148, 154, 155, 156, 157, 158, 159, 160, 161, 162, 163, 164):
        need(2)
        bn1 = spec_num(top(-2))
        bn2 = spec_num(top(-1))
        st.pop()
        st.pop()
        if opc == 147:
            r = bn1 + bn2
        elif opc == 148:
            r = bn1 - bn2
        elif opc == 154:
            r = 1 if (bn1 != 0 and bn2 != 0) else 0
        elif opc == 155:
            r = 1 if (bn1 != 0 or bn2 != 0) else 0
        elif opc in (156, 157):
            r = 1 if bn1 == bn2 else 0
        elif opc == 158:
            r = 1 if bn1 != bn2 else 0
        elif opc == 159:
            r = 1 if bn1 < bn2 else 0
        elif opc == 160:
            r = 1 if bn1 > bn2 else 0
        elif opc == 161:
            r = 1 if bn1 <= bn2 else 0
        elif opc == 162:
            r = 1 if bn1 >= bn2 else 0
        elif opc == 163:
            r = bn1 if bn1 < bn2 else bn2
        else:
            r = bn1 if bn1 > bn2 else bn2
        if opc == 157:
            if r == 0:
                raise Fail("numequalverify")
        else:
            st.append(spec_ser(r))
    elif opc == 165:  # WITHIN (x min max -- out)
        need(3)
        x = spec_num(top(-3))
        mn = spec_num(top(-2))
        mx = spec_num(top(-1))
        st.pop()
        st.pop()
        st.pop()
        st.append(TRUE_V if (mn <= x and x < mx) else FALSE_V)
    elif opc in (166, 167, 168, 169, 170):
        need(1)
        d = st.pop()
        if opc == 166:
            r = _hash("ripemd160", d)
        elif opc == 167:
            r = _hash("sha1", d)
        elif opc == 168:
            r = _hash("sha256", d)
        elif opc == 169:
            r = _hash("ripemd160", _hash("sha256", d))
        else:
            r = _hash("sha256", _hash("sha256", d))
        st.append(r)
    elif opc == 177:  # CLTV
        locktime, sequence, version = ctx
        need(1)
        n = spec_num(top(-1), 5)
        if n < 0:
            raise Fail("negative locktime")
        if not ((locktime < 500000000 and n < 500000000) or (locktime >= 500000000 and n >= 500000000)):
            raise Fail("locktime type")
        if n > locktime:
            raise Fail("locktime not reached")
        if sequence == 0xFFFFFFFF:
            raise Fail("final sequence")
    elif opc == 178:  # CSV
        locktime, sequence, version = ctx
        need(1)
        n = spec_num(top(-1), 5)
        if n < 0:
            raise Fail("negative sequence")
        if (n & (1 << 31)) == 0:
            if version < 2:
                raise Fail("version")
            if sequence & (1 << 31):
                raise Fail("tx sequence disabled")
            mask = (1 << 22) | 0xFFFF
            a = sequence & mask
            b = n & mask
            if not ((a < (1 << 22) and b < (1 << 22)) or (a >= (1 << 22) and b >= (1 << 22))):
                raise Fail("sequence type")
            if b > a:
                raise Fail("sequence not reached")
    else:
        raise KeyError(opc)
    return st, al


ARITY = {105: 1, 107: 1, 109: 2, 110: 2, 111: 3, 112: 4, 113: 6, 114: 4, 115: 1, 117: 1, 118: 1, 119: 2, 120: 2, 123: 3,
         124: 2, 125: 2, 130: 1, 135: 2, 136: 2, 139: 1, 140: 1, 143: 1, 144: 1, 145: 1, 146: 1, 147: 2, 148: 2, 154: 2, 155: 2,
         156: 2, 157: 2, 158: 2, 159: 2, 160: 2, 161: 2, 162: 2, 163: 2, 164: 2, 165: 3, 166: 1, 167: 1, 168: 1, 169: 1, 170: 1}
NUMERIC = {105, 115, 139, 140, 143, 144, 145, 146, 147, 148, 154, 155, 156, 157, 158, 159, 160, 161, 162, 163, 164, 165}
NULLARY = [0, 79] + list(range(81, 98)) + [106, 116, 176] + list(range(179, 186))


def _hexl(lst):
    return [bytes(x).hex() if isinstance(x, (bytes, bytearray)) else None for x in lst]


def _conc_el(env, e):
    """concrete bytes of a stack element under env"""
    if isinstance(e, (bytes, bytearray)):
        return bytes(e)
    memo = {}
    return bytes(core.evaln(core.lift(i), env, memo) if isinstance(i, SI) else i for i in e.items)


def _stack_eq(a, b):
    if len(a) != len(b):
        return False
    conds = []
    for x, y in zip(a, b):
        if len(x) != len(y):
            return False
        conds.append(x == y)
    return s_and(*conds) if conds else True


def _op_path(opc, lens, rest, altdepth):
    """one symbolic stack; run the real opcode function and the oracle; compare"""
    opm = loader.load("op")
    base = [bytes([0xA0 + i % 64, i % 256]) for i in range(rest)]
    syms = [SBytes.sym(f"e{i}", n) if n else b"" for i, n in enumerate(lens)]
    stack0 = base + syms
    alt0 = [bytes([0xB0 + i]) for i in range(altdepth)]

    def wit(env):
        return {"op": opc, "stack": [_conc_el(env, e).hex() for e in stack0], "alt": [a.hex() for a in alt0]}

    st = list(stack0)
    al = list(alt0)
    f = opm.OP_CODE_FUNCTIONS[opc]
    try:
        if opc in (107, 108):
            ok = f(st, al)
        else:
            ok = f(st)
        ok = bool(ok)
        exc = None
    except Exception as e:  # an exception from an opcode is a failed script at best
        ok = False
        exc = type(e).__name__
    try:
        est, eal = spec_op(opc, stack0, alt0)
        eok = True
    except Fail:
        eok = False
    if ok != eok:
        check(False, f"op {opc}: accept/fail differs (impl ok={ok} exc={exc}, consensus ok={eok})", witness=wit)
        return "diff"
    if ok:
        se = _stack_eq(st, est)
        ae = _stack_eq(al, eal)
        check(s_and(se, ae), f"op {opc}: resulting stack differs from consensus", witness=wit)
        return "ok"
    check(True, "both fail")
    return "fail"


def ob_opcode(opc, maxlen, extra_depth):
    runs = []
    ar = ARITY.get(opc, 0)
    lens_choices = range(0, maxlen + 1) if opc in NUMERIC else (0, 1, 2)
    if opc in NULLARY or opc == 108:
        shapes = [()]
    else:
        shapes = list(itertools.product(lens_choices, repeat=min(ar, 3)))
        if ar > 3:
            shapes = [tuple([1] * (ar - 3)) + s for s in itertools.product((0, 1), repeat=3)]
    sample = None
    for shape in shapes:
        # depths: underflow cases (fewer than arity) and enough
        for have in sorted(set([0, max(ar - 1, 0), ar])):
            lens = shape[len(shape) - have:] if have else ()
            if len(lens) < have:
                continue
            for rest in ((0, extra_depth) if have == ar else (0,)):
                for altd in ((0, 1, 2) if opc in (107, 108) else (0,)):
                    r = sym_run(lambda: _op_path(opc, lens, rest, altd), timeout_ms=30000)
                    runs.append(r)
                    if sample is None and r["stats"]["paths"]:
                        sample = {"opcode": opc, "operand_lengths": list(lens), "opaque_depth": rest, "paths": r["stats"]["paths"]}
    m = merge_runs(runs)
    m["sample"] = sample
    m["inconclusive"] = [x for x in m["inconclusive"] if "no assertion" not in x]
    return m


def ob_opcode_sizes(opc, sizes):
    """SIZE on elements / DEPTH on stacks whose length crosses the 1- and 2-byte boundaries of the number encoding (0x7f/0x80, 0xff/0x100)"""
    runs = []
    for n in sizes:
        if opc == 130:
            runs.append(sym_run(lambda: _op_path(130, (n,), 0, 0), timeout_ms=30000))
        else:
            runs.append(sym_run(lambda: _op_path(116, (), n, 0), timeout_ms=30000))
    m = merge_runs(runs)
    m["sample"] = {"opcode": opc, "element length" if opc == 130 else "stack depth": list(sizes)}
    return m


def _pickroll_path(opc, depth, nlen):
    opm = loader.load("op")
    base = [SBytes.sym(f"s{i}", 1) for i in range(depth)]
    operand = SBytes.sym("n", nlen) if nlen else b""
    stack0 = base + [operand]

    def wit(env):
        return {"op": opc, "stack": [_conc_el(env, e).hex() for e in stack0], "alt": []}
    st = SList(stack0)
    try:
        ok = bool(opm.OP_CODE_FUNCTIONS[opc](st))
        exc = None
    except Exception as e:
        ok = False
        exc = type(e).__name__
    try:
        est, _ = spec_op(opc, stack0, [])
        eok = True
    except Fail:
        eok = False
    if ok != eok:
        check(False, f"op {opc}: accept/fail differs (impl ok={ok} exc={exc}, consensus ok={eok})", witness=wit)
        return "diff"
    if ok:
        check(_stack_eq(st, est), f"op {opc}: resulting stack differs from consensus", witness=wit)
        return "ok"
    check(True, "both fail")
    return "fail"


def ob_pickroll(opc, maxdepth, maxn):
    runs = []
    for depth in range(0, maxdepth + 1):
        for nlen in range(0, maxn + 1):
            runs.append(sym_run(lambda: _pickroll_path(opc, depth, nlen)))
    m = merge_runs(runs)
    m["sample"] = {"opcode": opc, "depths": f"0..{maxdepth}", "operand_bytes": f"0..{maxn}"}
    return m


# ---- number codec


def ob_numcodec_history(n0):
    """history: earlier codec calls on arbitrary other operands (an element of n0 bytes decoded, a number encoded) in the same
    process; encode_num / decode_num must still be the specification's functions afterwards"""
    opm = loader.load("op")

    def p4():
        v0 = SBytes.sym("v0", n0) if n0 else b""
        j0 = SI.var("j0", -(1 << 31) + 1, (1 << 31) - 1)
        i = SI.var("i", -(1 << 31) + 1, (1 << 31) - 1)
        w = lambda env: {"hist": {"v0": bytes_env(env, "v0", n0).hex(), "j0": env["j0"]}, "i": env["i"]}  # noqa
        try:
            opm.decode_num(v0)
            opm.encode_num(j0)
        except core.Unsupported:
            raise
        except Exception:
            pass
        b = opm.encode_num(i)
        e = spec_ser(i)
        check((len(b) == len(e)) and (b == e), "encode_num(i) is not the minimal serialisation after earlier codec calls", witness=w)
        check(opm.decode_num(b) == i, "decode_num(encode_num(i)) != i after earlier codec calls", witness=w)
        check(opm.decode_num(v0) == spec_num(v0), "decode_num(v) != CScriptNum(v) after earlier codec calls", witness=w)
        return "ok"
    r = sym_run(p4, expect_classes=["ok"], max_violations=6)
    r["sample"] = {"history": f"decode_num(element of {n0} symbolic bytes); encode_num(symbolic j0)", "then": "encode_num(i), decode_num of both"}
    return r


def ob_numcodec():
    opm = loader.load("op")

    def p1():
        i = SI.var("i", -(1 << 31) + 1, (1 << 31) - 1)
        b = opm.encode_num(i)
        w = lambda env: {"i": env["i"]}  # noqa
        check(opm.decode_num(b) == i, "decode_num(encode_num(i)) == i", witness=w)
        e = spec_ser(i)
        check((len(b) == len(e)) and (b == e), "encode_num(i) is the minimal CScriptNum serialisation", witness=w)
        return core.Out(len(b), b)

    nat = loader.native("op")
    r1 = sym_run(p1, expect_classes=[0, 1, 2, 3, 4], gen_env=lambda rng: {"i": rng.choice([0, 1, -1, 127, 128, -128, 32767, 32768,
                 -8388608, (1 << 31) - 1, -(1 << 31) + 1, rng.randrange(-(1 << 31) + 1, 1 << 31)])},
                 native=lambda env: nat.encode_num(env["i"]), n_val=40)
    runs = [r1]
    for n in range(0, 5):
        def p2():
            v = SBytes.sym("v", n) if n else b""
            w = lambda env: {"v": bytes_env(env, "v", n).hex()}  # noqa
            d = opm.decode_num(v)
            check(d == spec_num(v), "decode_num(v) == CScriptNum(v)", witness=w)
            return core.Out("ok", d)
        runs.append(sym_run(p2, gen_env=lambda rng: {f"v[{j}]": rng.choice([0, 0x80, 0xff, 0x7f, rng.randrange(256)]) for j in range(n)},
                            native=lambda env: nat.decode_num(bytes_env(env, "v", n)), n_val=20))

    def p3():
        i = SI.var("i", -40, 40)
        try:
            r = opm.number_to_op_code(i)
            okc = True
        except ValueError:
            okc = False
        check(okc == bool(s_and(i >= -1, i <= 16)), "number_to_op_code defined exactly on [-1,16]", witness=lambda env: {"n": env["i"]})
        if okc:
            check(opm.op_code_to_number(r) == i, "op_code_to_number inverts number_to_op_code", witness=lambda env: {"n": env["i"]})
            rb = opm.number_to_op_code_byte(i)
            check(rb[0] == r, "number_to_op_code_byte agrees", witness=lambda env: {"n": env["i"]})
            # the opcode, executed, pushes the number
            st = []
            opm.OP_CODE_FUNCTIONS[core.concretize(r)](st)
            check(spec_num(st[0]) == i, "small-integer opcode pushes its number", witness=lambda env: {"n": env["i"]})
        m = opm.encode_minimal_num(i)
        return okc
    runs.append(sym_run(p3, expect_classes=[True, False]))
    m = merge_runs(runs)
    m["sample"] = {"i": "symbolic in (-2^31, 2^31)", "v": "symbolic bytes, length 0..4"}
    return m


def replay_numcodec(w):
    from buidl import op
    if "hist" in w:
        v0, j0, i = bytes.fromhex(w["hist"]["v0"]), w["hist"]["j0"], w["i"]
        try:
            op.decode_num(v0)
            op.encode_num(j0)
        except Exception:
            pass
        b = op.encode_num(i)
        bad = b != bytes(spec_ser(i)) or op.decode_num(b) != i or op.decode_num(v0) != spec_num(v0)
        return {"violated": bad, "observed": f"after decode_num({v0.hex()}) and encode_num({j0}): encode_num({i}) = {b.hex()} (minimal "
                                             f"{bytes(spec_ser(i)).hex()}), decode_num({v0.hex()}) = {op.decode_num(v0)} (CScriptNum {spec_num(v0)})"}
    if "i" in w:
        i = w["i"]
        b = op.encode_num(i)
        bad = op.decode_num(b) != i or b != spec_ser(i)
        return {"violated": bad, "observed": f"encode_num({i}) = {b.hex()}, decode = {op.decode_num(b)}, minimal = {bytes(spec_ser(i)).hex()}"}
    if "v" in w:
        v = bytes.fromhex(w["v"])
        return {"violated": op.decode_num(v) != spec_num(v), "observed": f"decode_num({v.hex()}) = {op.decode_num(v)} vs {spec_num(v)}"}
    n = w["n"]
    try:
        r = op.number_to_op_code(n)
        okc = True
    except ValueError:
        okc = False
    bad = okc != (-1 <= n <= 16)
    if okc and not bad:
        st = []
        op.OP_CODE_FUNCTIONS[r](st)
        bad = op.op_code_to_number(r) != n or op.number_to_op_code_byte(n)[0] != r or spec_num(st[0]) != n
    return {"violated": bad, "observed": f"number_to_op_code({n}) defined={okc}"}


def replay_opcode(w):
    """run the real opcode function on the concrete stack; compare with the consensus model"""
    from buidl import op
    stack0 = [bytes.fromhex(x) for x in w["stack"]]
    alt0 = [bytes.fromhex(x) for x in w["alt"]]
    opc = w["op"]
    st, al = list(stack0), list(alt0)
    f = op.OP_CODE_FUNCTIONS[opc]
    try:
        ok = bool(f(st, al) if opc in (107, 108) else f(st))
        exc = None
    except Exception as e:
        ok, exc = False, repr(e)
    try:
        est, eal = spec_op(opc, stack0, alt0)
        est = [bytes(x) for x in est]
        eok = True
    except Fail as e:
        eok, est, eal = False, None, None
    if ok != eok:
        return {"violated": True, "observed": f"{op.OP_CODE_NAMES.get(opc)} on {w['stack']}: impl ok={ok} exc={exc}; consensus ok={eok}"}
    if ok and (st != est or al != eal):
        return {"violated": True, "observed": f"{op.OP_CODE_NAMES.get(opc)} on {w['stack']}: impl -> {_hexl(st)}; consensus -> {_hexl(est)}"}
    return {"violated": False, "observed": "agrees"}


# ---- conditionals: splice vs vfExec

IF, NOTIF, ELSE, ENDIF, OTHER = 99, 100, 103, 104, 97


def spec_exec_trace(prog, cond_true):
    """consensus vfExec model for a program whose *first* conditional consumes the symbolic condition and whose nested
    conditionals (executed) see a constant-true marker... simplified: programs here contain data pushes as markers.
    Returns the list of executed marker pushes or raises Fail when unbalanced."""
    raise NotImplementedError


def _if_model(items, first_val, vals):
    """reference: execute items (after an initial IF/NOTIF opcode `head` already consumed is NOT assumed: items is the
    whole program).  Markers are ints >= 1000 (executed => recorded).  Conditions for each IF/NOTIF encountered while
    executing are taken from vals in order of *execution*.  Returns (ok, trace)."""
    vf = []
    trace = []
    vi = 0
    for it in items:
        fexec = all(vf)
        if it in (IF, NOTIF):
            v = False
            if fexec:
                if vi >= len(vals):
                    return False, trace  # stack underflow in consensus
                v = vals[vi]
                vi += 1
                if it == NOTIF:
                    v = not v
            vf.append(v)
        elif it == ELSE:
            if not vf:
                return False, trace
            vf[-1] = not vf[-1]
        elif it == ENDIF:
            if not vf:
                return False, trace
            vf.pop()
        else:
            if fexec:
                trace.append(it)
    if vf:
        return False, trace
    return True, trace


def _run_prog_impl(opm, prog, conds):
    """drive the real op_if/op_notif splice the way Script.evaluate does; conds are pushed before each executed IF"""
    commands = list(prog)
    trace = []
    ci = 0
    while commands:
        c = commands.pop(0)
        if c in (IF, NOTIF):
            if ci >= len(conds):
                stack = []
            else:
                stack = [conds[ci]]
                ci += 1
            f = opm.op_if if c == IF else opm.op_notif
            if not f(stack, commands):
                return False, trace
        elif c in (ELSE, ENDIF):
            # evaluate() looks these up in OP_CODE_FUNCTIONS and raises KeyError: a failed script
            return False, trace
        else:
            trace.append(c)
    return True, trace


def _cond_path(prog, clen, nconds):
    opm = loader.load("op")
    conds = [SBytes.sym(f"c{i}", clen) if clen else b"" for i in range(nconds)]

    def wit(env):
        return {"prog": list(prog), "conds": [_conc_el(env, c).hex() for c in conds]}
    ok, tr = _run_prog_impl(opm, prog, conds)
    vals = [spec_bool(c) for c in conds]
    eok, etr = _if_model(prog, None, vals)
    if ok != eok:
        check(False, f"conditional program accept/fail differs (impl {ok}, consensus {eok})", witness=wit)
        return "diff"
    if ok:
        check(tr == etr, "executed operations differ from the vfExec model", witness=wit)
    else:
        check(True, "both fail")
    return "ok" if ok else "fail"


def well_nested_single_else(prog):
    depth = []
    for it in prog:
        if it in (IF, NOTIF):
            depth.append(0)
        elif it == ELSE:
            if not depth or depth[-1]:
                return False
            depth[-1] = 1
        elif it == ENDIF:
            if not depth:
                return False
            depth.pop()
    return not depth


def ob_conditionals(maxlen, clens):
    runs = []
    nprog = 0
    for L in range(1, maxlen + 1):
        for prog in itertools.product((IF, NOTIF, ELSE, ENDIF, "m"), repeat=L):
            if prog[0] not in (IF, NOTIF):
                continue
            # the property speaks of properly nested conditionals: balanced, at most one ELSE per IF
            if not well_nested_single_else(prog):
                continue
            mk = 1000
            p = []
            for it in prog:
                if it == "m":
                    p.append(mk)
                    mk += 1
                else:
                    p.append(it)
            nifs = sum(1 for x in p if x in (IF, NOTIF))
            for clen in clens:
                runs.append(sym_run(lambda: _cond_path(tuple(p), clen, nifs)))
            nprog += 1
    m = merge_runs(runs)
    m["sample"] = {"programs": nprog, "example": "IF m ELSE m ENDIF with symbolic condition bytes"}
    return m


def replay_cond(w):
    from buidl import op
    prog = w["prog"]
    conds = [bytes.fromhex(c) for c in w["conds"]]
    ok, tr = _run_prog_impl(op, prog, conds)
    eok, etr = _if_model(prog, None, [spec_bool(c) for c in conds])
    bad = ok != eok or (ok and tr != etr)
    return {"violated": bad, "observed": f"prog {prog} conds {w['conds']}: impl {ok} {tr}; consensus {eok} {etr}"}


# ---- timelocks


class _TxIn:
    def __init__(self, sequence):
        self.sequence = sequence


class _Tx:
    def __init__(self, locktime, sequence, version):
        self.locktime = locktime
        self.tx_ins = [_TxIn(sequence)]
        self.version = version


def _timelock_path(opc, nlen):
    opm = loader.load("op")
    tl = loader.load("timelock")
    lt = SI.var("locktime", 0, (1 << 32) - 1)
    sq = SI.var("sequence", 0, (1 << 32) - 1)
    ver = SI.var("version", 0, 4)
    operand = SBytes.sym("n", nlen) if nlen else b""
    # operands in [-1, 2^32-1] as the property states
    v = spec_num(operand, 5)
    assume(s_and(v >= -1, v <= (1 << 32) - 1))
    tx = _Tx(tl.Locktime(lt), tl.Sequence(sq), ver)
    stack = [operand]

    def wit(env):
        return {"op": opc, "locktime": env["locktime"], "sequence": env["sequence"], "version": env["version"],
                "operand": _conc_el(env, operand).hex()}
    try:
        ok = bool(opm.OP_CODE_FUNCTIONS[opc](stack, tx, 0))
        exc = None
    except Exception as e:
        ok, exc = False, type(e).__name__
    try:
        spec_op(opc, [operand], [], ctx=(lt, sq, ver))
        eok = True
    except Fail:
        eok = False
    check(ok == eok, f"op {opc} accept/fail differs from CheckLockTime/CheckSequence (impl {ok} exc={exc}, consensus {eok})", witness=wit)
    if ok and eok:
        check((len(stack) == 1) and (stack[0] == operand), "operand left on the stack", witness=wit)
    return (ok, eok)


def ob_timelock(opc):
    runs = [sym_run(lambda: _timelock_path(opc, n), timeout_ms=60000) for n in range(0, 6)]
    m = merge_runs(runs)
    m["sample"] = {"opcode": opc, "locktime/sequence": "symbolic 32-bit", "version": "0..4", "operand": "script number of 0..5 bytes in [-1, 2^32-1]"}
    return m


def replay_timelock(w):
    from buidl import op, timelock
    operand = bytes.fromhex(w["operand"])
    tx = _Tx(timelock.Locktime(w["locktime"]), timelock.Sequence(w["sequence"]), w["version"])
    stack = [operand]
    try:
        ok = bool(op.OP_CODE_FUNCTIONS[w["op"]](stack, tx, 0))
        exc = None
    except Exception as e:
        ok, exc = False, repr(e)
    try:
        spec_op(w["op"], [operand], [], ctx=(w["locktime"], w["sequence"], w["version"]))
        eok = True
    except Fail as e:
        eok = False
    return {"violated": ok != eok,
            "observed": f"{op.OP_CODE_NAMES[w['op']]} operand={spec_num(operand, 5)} locktime={w['locktime']} sequence={w['sequence']:#x} "
                        f"version={w['version']}: impl {ok} ({exc}), consensus {eok}"}


# ---- evaluate loop: final truthiness and small whole programs


class _EvalTxIn:
    def __init__(self):
        self.witness = None
        self.sequence = 0xFFFFFFFE


class _EvalTx:
    def __init__(self):
        self.tx_ins = [_EvalTxIn()]
        self.locktime = 0
        self.version = 2


def _truth_path(n):
    sc = loader.load("script")
    top = SBytes.sym("t", n) if n else b""
    # the evaluator treats (0|1, 20/32-byte) stacks as witness programs by design; a single push cannot trigger that
    s = sc.Script([top])
    try:
        ok = bool(s.evaluate(_EvalTx(), 0))
    except Exception:
        ok = False
    check(ok == spec_bool(top), "final stack truthiness differs from CastToBool",
          witness=lambda env: {"program": [_conc_el(env, top).hex()]})
    return ok


def ob_truthiness(maxlen):
    runs = [sym_run(lambda: _truth_path(n)) for n in range(0, maxlen + 1)]
    m = merge_runs(runs)
    m["sample"] = {"program": "[<t>] with t symbolic, length 0..%d" % maxlen}
    return m


def spec_eval(cmds):
    """consensus evaluation of a program of pushes and opcodes (no conditionals): True/False"""
    st, al = [], []
    try:
        for c in cmds:
            if isinstance(c, int):
                st, al = spec_op(c, st, al)
            else:
                st.append(c)
    except Fail:
        return False
    if not st:
        return False
    return spec_bool(st[-1])


def _prog_path(ops, lens):
    sc = loader.load("script")
    pushes = [SBytes.sym(f"p{i}", n) if n else b"" for i, n in enumerate(lens)]
    cmds = list(pushes) + list(ops)
    s = sc.Script(list(cmds))
    wit = lambda env: {"program": [(_conc_el(env, c).hex() if not isinstance(c, int) else c) for c in cmds]}  # noqa
    try:
        ok = bool(s.evaluate(_EvalTx(), 0))
    except Exception:
        ok = False
    eok = bool(spec_eval(cmds))
    check(ok == eok, "program result differs from consensus", witness=wit)
    # history: evaluating must not consume or alter the Script object; a second evaluation gives the same verdict
    try:
        ok2 = bool(s.evaluate(_EvalTx(), 0))
    except Exception:
        ok2 = False
    check(ok2 == eok, "a second evaluation of the same Script object gives a different verdict", witness=lambda env: dict(wit(env), twice=True))
    check(len(s.commands) == len(cmds), "evaluate() altered the Script object's command list", witness=lambda env: dict(wit(env), twice=True))
    return (ok, eok)


PROG_ALPHABET = [118, 124, 147, 148, 135, 145, 105, 115, 159, 130, 117, 164]


def ob_programs(nops, seed_count):
    import random
    runs = []
    combos = list(itertools.product(PROG_ALPHABET, repeat=nops))
    random.shuffle(combos)
    for ops in combos[:seed_count]:
        for lens in ((1, 1), (1, 2), (0, 1), (2, 2)):
            runs.append(sym_run(lambda: _prog_path(ops, lens)))
    m = merge_runs(runs)
    m["sample"] = {"program": "two symbolic pushes then %d opcodes from %s" % (nops, PROG_ALPHABET), "programs": len(runs)}
    return m


def replay_program(w):
    from buidl import script
    cmds = [c if isinstance(c, int) else bytes.fromhex(c) for c in w["program"]]
    sobj = script.Script(list(cmds))
    try:
        ok = bool(sobj.evaluate(_EvalTx(), 0))
    except Exception as e:
        ok = False
    eok = bool(spec_eval(cmds))
    if w.get("twice"):
        try:
            ok2 = bool(sobj.evaluate(_EvalTx(), 0))
        except Exception:
            ok2 = False
        return {"violated": ok2 != eok or len(sobj.commands) != len(cmds),
                "observed": f"program {w['program']}: first evaluation {ok}, second evaluation of the same object {ok2}, consensus {eok}; "
                            f"commands left {len(sobj.commands)} of {len(cmds)}"}
    return {"violated": ok != eok, "observed": f"program {w['program']}: impl {ok}, consensus {eok}"}


# ------------------------------------------------------------------------------------------------ registry

SIMPLE_OPS = sorted(set(NULLARY) | set(ARITY) | {108})


def obligations(tier):
    q = tier == "quick"
    obs = [Ob("O1-numcodec", ob_numcodec, replay="numcodec")]
    for n0 in range(0, 5):
        obs.append(Ob("O1-numcodec-history", ob_numcodec_history, {"n0": n0}, replay="numcodec", budget_s=600))
    for opc in SIMPLE_OPS:
        obs.append(Ob("O2-opcode", ob_opcode, {"opc": opc, "maxlen": 4 if (not q or opc not in (165,)) else 3, "extra_depth": 2 if q else 3},
                      replay="opcode", budget_s=900))
    szs = (5, 75, 76, 127, 128, 129, 255, 256, 520) if q else tuple(range(5, 132)) + (254, 255, 256, 257, 300, 519, 520)
    obs.append(Ob("O2-opcode-sizes", ob_opcode_sizes, {"opc": 130, "sizes": szs}, replay="opcode", budget_s=900))
    obs.append(Ob("O2-opcode-sizes", ob_opcode_sizes, {"opc": 116, "sizes": szs if q else szs + (1000,)}, replay="opcode", budget_s=900))
    for opc in (121, 122):
        obs.append(Ob("O2-pickroll", ob_pickroll, {"opc": opc, "maxdepth": 4 if q else 7, "maxn": 2 if q else 4}, replay="opcode"))
    obs.append(Ob("O3-conditionals", ob_conditionals, {"maxlen": 5 if q else 7, "clens": (0, 1, 2) if q else (0, 1, 2, 3)}, replay="cond",
                  budget_s=1500))
    for opc in (177, 178):
        obs.append(Ob("O4-timelock", ob_timelock, {"opc": opc}, replay="timelock"))
    obs.append(Ob("O5-truthiness", ob_truthiness, {"maxlen": 4 if q else 6}, replay="program"))
    obs.append(Ob("O5-programs", ob_programs, {"nops": 2 if q else 3, "seed_count": 40 if q else 400}, replay="program", budget_s=1500))
    return obs
