"""C13 — MuSig aggregation yields valid BIP340 signatures; k-of-n trees cover all subsets (DESIGN.md section 3, C13)."""
import itertools

from symx import core, loader, shims, field
from symx.core import SI, SBytes, check, s_and, s_or, s_not, s_implies, assume, bytes_env, Out, conc_value, wrapb, lift, branch
from vlib.run import Ob, sym_run, merge_runs, conc_run
from checks._group import Env, with_env, N, P

PROPERTY = "C13"

META = {
    "bounds": {
        "quick": {"aggregation": "2 participants: all secrets d_i in [1,N-1] (all key parities), nonce pairs in [1,N-1], all 32-byte messages, "
                                 "merkle root absent / any 32 bytes; every parity path of R and of the (tweaked) aggregate key",
                  "alteration": "the sum of partial signatures offset by any delta in [1,N-1] (covers a missing or altered partial signature), untweaked key",
                  "order": "both orders of 2 keys",
                  "history": "2 participants, no merkle root: participant 0's own MuSigTapScript object already went through (a) nonce "
                             "aggregation + compute_k, or (b) one sign() call, of an earlier abandoned round for the SAME message and merkle "
                             "root with arbitrary other nonces (aggregate nonce o*G, all o in [1,N-1]); the new round must still sum to a valid signature",
                  "leaf spends": "k-of-n CHECKSIG/CHECKSIGADD leaves (1,2), (2,2), (2,3) [single_leaf script; n == k: the script of a "
                                 "multi_leaf_tree leaf], every k-subset of signers, spent through initialize_p2tr_multisig / get_sig_taproot / "
                                 "finalize_p2tr_multisig / verify_input on a 1-input 1-output transaction with symbolic fields; every combination "
                                 "of signature forms per signer (64-byte SIGHASH_DEFAULT / 65-byte explicit), each explicit hash type byte "
                                 "symbolic and independent in {01,02,03,81,82,83}; keys and signatures symbolic (ideal signatures)"},
        "thorough": {"aggregation": "2 and 3 participants", "alteration": "also with the taproot tweak", "order": "all 6 orders of 3 keys",
                     "history": "also with merkle root, 3 participants, and (c) ONE shared object after a complete earlier round "
                                "(all partial signatures and get_signature) for the same message",
                     "leaf spends": "also (3,3), (1,3), (3,4), (2,4)"}},
    "outside": ["'each k-subset owns exactly one leaf and its spend verifies' is a finite structural fact about itertools.combinations with no "
                "symbolic content: executed concretely for (k,n) <= (3,4) with real keys and reported as NOT solver-decided (O3)",
                "participants whose x-only keys coincide (assumed pairwise different: the key set is a set)",
                "key sets of size 4 and 5 (same code path; the solver work grows with the number of sort orders)",
                "leaf spends (O4): 'signed by that subset' is read as: every member signs the spending transaction with Tx.get_sig_taproot "
                "(ext_flag=1) under a hash type of its own choice among the seven standard ones, and the spend is assembled with "
                "Tx.finalize_p2tr_multisig; non-standard hash type bytes, an annex, several inputs (SIGHASH_SINGLE without a matching output) "
                "and signatures handed over in another order than the sorted keys are outside",
                "leaf spends (O4), symbolic run: the leaf is the only leaf of its tree (empty merkle path) under an arbitrary internal key; "
                "merkle paths of the generated multi_leaf_tree are exercised by the replay only (k-of-(k+1) wallet, real keys)"],
    "stubs": ["abstract prime-order group with X injective up to sign", "tagged SHA-256 uninterpreted", "secrets.randbelow returns arbitrary values",
              "dicts keyed by x-only keys hash by provenance (core.HASH_BY_PROVENANCE) under the pairwise-distinct-keys assumption",
              "O4 only (stand-ins of checks/c06.py): S256Point -> key named by its x-only encoding, verify_schnorr -> uninterpreted predicate "
              "ValidS(key, digest, signature), PrivateKey.sign_schnorr -> fresh symbolic 64 bytes assumed ValidS for the signer's key on the "
              "signed digest and not valid for the other script keys; SHA-256 uninterpreted with collision-freeness instances"],
    "assumptions": ["prime-order group (C03)", "aggregate / tweaked keys and the aggregate nonce are not the point at infinity (probability 2^-256)",
                    "verify_schnorr == BIP340 verification (C02)",
                    "O4: sign_schnorr produces signatures that verify under the signer's key for the signed digest and under no other script "
                    "key (C02); the tapscript keys are pairwise different"],
}
MANIFEST = {"technique": "symbolic execution of the real MuSigTapScript code over an abstract prime-order group; the BIP340 equation for the sum of "
                         "partial signatures is decided by the GF(N) canonical form, ranges/parities by z3 (LIA); leaf spends (O4): symbolic execution of "
                         "the real Tx / Script / opcode / BIP341 digest code with ideal signatures (z3 bit-vectors + uninterpreted functions)"}


def _setup(e, n, with_root):
    tm = loader.load("taproot")
    core.HASH_BY_PROVENANCE[0] = True
    ds = [SI.var(f"d{i}", 1, N - 1) for i in range(n)]
    privs = [e.pecc.PrivateKey(d) for d in ds]
    pts = [p.point for p in privs]
    xs = [e.grp.coords(d)[0] for d in ds]
    for i in range(n):
        for j in range(i + 1, n):
            assume(core.wrap(xs[i]) != core.wrap(xs[j]))
    msg = SBytes.sym("msg", 32)
    root = SBytes.sym("root", 32) if with_root else b""
    return tm, ds, privs, pts, msg, root


@with_env("taproot")
def _agg_path(e, n, with_root, tamper, prior=False):
    # the additive-structure / injectivity axioms are only needed to prove that an ALTERED sum is rejected
    e.grp.injective_x = tamper
    e.fld.link_differences = tamper
    F = e.fld
    tm, ds, privs, pts, msg, root = _setup(e, n, with_root)
    nonces = [(SI.var(f"k{i}a", 1, N - 1), SI.var(f"k{i}b", 1, N - 1)) for i in range(n)]

    def wit(env):
        return {"n": n, "d": [env[f"d{i}"] for i in range(n)], "k": [[env[f"k{i}a"], env[f"k{i}b"]] for i in range(n)],
                "msg": bytes_env(env, "msg", 32).hex(), "root": bytes_env(env, "root", 32).hex() if with_root else "",
                "delta": env.get("delta", 0), "prior": [[env.get(f"o{i}a", 1), env.get(f"o{i}b", 1)] for i in range(n)] if prior else None, "prior_signed": prior == "signed", "prior_complete": prior == "complete"}
    try:
        musig = tm.MuSigTapScript(pts)
        mine = tm.MuSigTapScript(pts) if prior and prior != "complete" else musig
    except AttributeError:
        return "agg-infinity"  # aggregate key at infinity: excluded (stated assumption)
    assume(wrapb(core.b_not(F.is_zero_cond(field.lift_si(musig.point.d)))))
    if prior:
        # history: participant 0 keeps its own MuSigTapScript object, which already went through an abandoned attempt for the same
        # message with other nonces (coefficient and k evaluated); it then joins this session with the same object
        old = [(SI.var(f"o{i}a", 1, N - 1), SI.var(f"o{i}b", 1, N - 1)) for i in range(n)]
        if prior == "signed":
            # ... or as far as participant 0's partial signature: sign() called on the object for the same message and merkle root
            # with the aggregate nonce o0a*G and the secret nonce o0b of that earlier round (both arbitrary)
            try:
                mine.sign(privs[0], old[0][1], old[0][0] * e.G, msg, root)
            except AttributeError:
                return "infinity"
            old = []
        try:
            if old:
                osums = mine.nonce_sums([(a * e.G, b * e.G) for a, b in old])
                orr = mine.compute_r(osums, msg)
                ok0 = mine.compute_k(old[0], osums, msg)
            if prior == "complete":
                # ... or ONE object shared by everybody went through a complete earlier round (all partial signatures, get_signature)
                assume(wrapb(core.b_not(F.is_zero_cond(field.lift_si(orr.d)))))
                osum = mine.sign(privs[0], ok0, orr, msg, root)
                for (a, b), priv in list(zip(old, privs))[1:]:
                    osum = osum + mine.sign(priv, mine.compute_k((a, b), osums, msg), orr, msg, root)
                try:
                    mine.get_signature(osum, orr, msg, root)
                except ValueError:
                    check(False, "the sum of all partial signatures is not a valid BIP340 signature for the aggregate key", witness=wit)
                    return "invalid"
        except AttributeError:
            return "infinity"
    pairs = [(a * e.G, b * e.G) for a, b in nonces]
    sums = musig.nonce_sums(pairs)
    try:
        r = musig.compute_r(sums, msg)
        assume(wrapb(core.b_not(F.is_zero_cond(field.lift_si(r.d)))))
        s_sum = 0
        for idx, ((a, b), priv) in enumerate(zip(nonces, privs)):
            inst = mine if idx == 0 else musig
            k = inst.compute_k((a, b), sums, msg)
            s_sum = s_sum + inst.sign(priv, k, r, msg, root)
    except AttributeError:
        return "infinity"  # a nonce sum / tweaked key at infinity: excluded (stated assumption)
    if tamper:
        delta = SI.var("delta", 1, N - 1)
        try:
            musig.get_signature(s_sum + delta, r, msg, root)
        except (ValueError, AttributeError):
            check(True, "rejected")
            return "rejected"
        check(False, "an altered sum of partial signatures produced a signature that passes verification", witness=wit)
        return "accepted-altered"
    try:
        sig = musig.get_signature(s_sum, r, msg, root)
    except ValueError:
        check(False, "the sum of all partial signatures is not a valid BIP340 signature for the aggregate key", witness=wit)
        return "invalid"
    except AttributeError:
        return "infinity"
    ser = sig.serialize()
    check(len(ser) == 64, "signature length", witness=wit)
    return "valid"


def ob_aggregate(n, with_root, tamper, prior=False):
    r = sym_run(lambda: _agg_path(n, with_root, tamper, prior), mode="int", timeout_ms=120000, max_paths=6000, max_violations=6)
    want = "'rejected'" if tamper else "'valid'"
    if want not in r["classes"]:
        r["inconclusive"].append(f"reachability twin: class {want} never reached")
    r["sample"] = {"participants": n, "secrets/nonces": "symbolic", "merkle root": "32 symbolic bytes" if with_root else "absent",
                   "altered": tamper}
    return r


def replay_aggregate(w):
    """real keys, real nonces, real hashes: run the library's own MuSig flow and judge with the BIP340 reference verifier"""
    from buidl import pecc, taproot
    from checks.c02 import ref_verify
    n = w["n"]
    privs = [pecc.PrivateKey(d) for d in w["d"]]
    pts = [p.point for p in privs]
    msg = bytes.fromhex(w["msg"])
    root = bytes.fromhex(w["root"])
    musig = taproot.MuSigTapScript(pts)
    mine = musig
    if w.get("prior"):
        mine = musig if w.get("prior_complete") else taproot.MuSigTapScript(pts)
        old = [tuple(x) for x in w["prior"]]
        if old == [tuple(x) for x in w["k"]]:
            old = [(a + 1, b + 2) for a, b in old]
        if w.get("prior_signed"):
            mine.sign(privs[0], old[0][1], old[0][0] * pecc.G, msg, root)
        else:
            osums = mine.nonce_sums([(a * pecc.G, b * pecc.G) for a, b in old])
            orr = mine.compute_r(osums, msg)
            ok0 = mine.compute_k(old[0], osums, msg)
        if w.get("prior_complete"):
            osum = sum(mine.sign(priv, mine.compute_k(ab, osums, msg), orr, msg, root) for ab, priv in zip(old, privs))
            try:
                mine.get_signature(osum, orr, msg, root)
            except ValueError:
                return {"violated": True, "observed": f"n={n}: the earlier round's own sum of partial signatures was rejected"}
    pairs = [(a * pecc.G, b * pecc.G) for a, b in w["k"]]
    sums = musig.nonce_sums(pairs)
    r = musig.compute_r(sums, msg)
    s_sum = 0
    for idx, ((a, b), priv) in enumerate(zip(w["k"], privs)):
        inst = mine if idx == 0 else musig
        k = inst.compute_k((a, b), sums, msg)
        s_sum += inst.sign(priv, k, r, msg, root)
    ext = musig.point.tweaked_key(root) if root else musig.point.even_point()
    delta = w.get("delta", 0)
    try:
        sig = musig.get_signature(s_sum + delta, r, msg, root)
        ok = True
    except ValueError:
        ok = False
    if delta:
        return {"violated": ok, "observed": f"altered sum accepted={ok}"}
    good = ok and ref_verify(ext.x.num, msg, sig.serialize())
    return {"violated": not good, "observed": f"n={n} root={'yes' if root else 'no'}: get_signature ok={ok}"}


@with_env("taproot")
def _order_path(e, n):
    F = e.fld
    tm, ds, privs, pts, msg, root = _setup(e, n, False)
    wit = lambda env: {"n": n, "d": [env[f"d{i}"] for i in range(n)]}  # noqa
    base = tm.MuSigTapScript(pts)
    for perm in itertools.permutations(range(n)):
        other = tm.MuSigTapScript([pts[i] for i in perm])
        check(F.same(other.point.d, base.point.d), "aggregate key depends on the order in which participants are listed", witness=wit)
        check(other.commands == base.commands, "leaf script depends on the order", witness=wit)
    return "ok"


def ob_order(n):
    r = sym_run(lambda: _order_path(n), mode="int", timeout_ms=60000)
    r["sample"] = {"keys": n, "orders": "all permutations"}
    return r


def replay_order(w):
    from buidl import pecc, taproot
    pts = [pecc.PrivateKey(d).point for d in w["d"]]
    base = taproot.MuSigTapScript(pts)
    bad = any(taproot.MuSigTapScript([pts[i] for i in perm]).point != base.point for perm in itertools.permutations(range(len(pts))))
    return {"violated": bad, "observed": f"d={w['d']}"}


def _leaf_facts(k, n):
    """structural facts about the generated trees for one (k, n), on real keys: returns the list of problems"""
    from buidl import pecc, taproot
    from itertools import combinations
    pts = [pecc.PrivateKey(1000 + 7 * i).point for i in range(n)]
    xs = sorted(p.xonly() for p in pts)
    t = taproot.TapRootMultiSig(pts, k)
    probs = []
    # single leaf: one script that commits to ALL n keys and the threshold k (CHECKSIG, then CHECKSIGADD per further key, k, EQUAL)
    cmds = list(t.single_leaf().tap_script.commands)
    want = [xs[0], 0xAC]
    if n > 1:
        for x in xs[1:]:
            want += [x, 0xBA]
        want += [80 + k, 0x87]
    if cmds != want:
        probs.append(f"single_leaf script for {k}-of-{n} is not <keys..> CHECKSIG/CHECKSIGADD {k} EQUAL over all {n} keys")
    want_sets = sorted(sorted(p.xonly() for p in c) for c in combinations(pts, k))
    got = sorted(sorted(p.xonly() for p in lf.tap_script.points) for lf in t.multi_leaf_tree().leaves())
    if got != want_sets:
        probs.append(f"multi_leaf_tree of {k}-of-{n}: leaves do not correspond one-to-one to the k-subsets")
    for lf in t.multi_leaf_tree().leaves():
        ks = sorted(p.xonly() for p in lf.tap_script.points)
        c = list(lf.tap_script.commands)
        w = [ks[0], 0xAC]
        if k > 1:
            for x in ks[1:]:
                w += [x, 0xBA]
            w += [80 + k, 0x87]
        if c != w:
            probs.append(f"multi_leaf_tree leaf script of {k}-of-{n} does not require all {k} keys of its subset")
            break
    if k >= 2:
        mt = t.musig_tree().leaves()
        agg = sorted(taproot.MuSigTapScript(list(c)).point.xonly() for c in combinations(pts, k))
        if sorted(lf.tap_script.commands[0] for lf in mt) != agg:
            probs.append(f"musig_tree of {k}-of-{n}: leaves are not the aggregate keys of the k-subsets")
    return probs


def ob_subsets():
    """NOT solver-decided (no symbolic content): the k-subset / leaf correspondence and the leaf script structure of the generated
    trees, executed with real keys for all 1 <= k <= n <= 4, n >= 2; reported with engine 'concrete'"""
    import time
    t0 = time.time()
    viol = []
    detail = []
    for n in range(2, 5):
        for k in range(1, n + 1):
            probs = _leaf_facts(k, n)
            detail.append((k, n, len(probs)))
            for pr in probs:
                viol.append({"label": pr, "witness": {"k": k, "n": n}, "replay": "subsets"})
    return {"engine": "concrete", "stats": core.Stats().asdict(), "classes": {}, "violations": viol, "inconclusive": [],
            "wall_s": round(time.time() - t0, 3), "sample": {"trusted_base": "tree generators on real keys", "(k, n, problems)": detail},
            "symbolic": False, "vars": []}


def replay_subsets(w):
    probs = _leaf_facts(w["k"], w["n"])
    return {"violated": bool(probs), "observed": "; ".join(probs) or "structure as specified"}


# ------------------------------------------------------------------------------------------------ O4: leaf spends through the library
HASH_TYPES = (1, 2, 3, 0x81, 0x82, 0x83)


def _leaf_spend_path(k, n, signers, forms):
    """a k-of-n tapscript leaf (the script of TapRootMultiSig.single_leaf; n == k: the script of a multi_leaf_tree leaf) spent through
    Tx.initialize_p2tr_multisig / get_sig_taproot / finalize_p2tr_multisig by the k-subset `signers`. forms[i] is the form of the
    i-th signer's signature (a size parameter): 'd' = 64 bytes (SIGHASH_DEFAULT), 'x' = 65 bytes with an explicit hash type byte,
    which is symbolic and independent per signer. Keys, transaction fields and signatures are symbolic (ideal-signature stand-ins of
    checks/c06.py: an honest signature is valid for its own key and digest; Tx.verify_input, Script.evaluate, OP_CHECKSIG(ADD), the
    BIP341 digest, the control block check and the finaliser are the library's code)."""
    from checks import c06
    c06.reset_path()
    t = c06.sym_tmpl("p2tr-csa", k, n)
    for a, b in zip(t.xkeys, t.xkeys[1:]):
        c06.assume_nq(core.sbytes(a) < b)  # MultiSigTapScript sorts by x-only key: name the keys in that order
    privs = [c06.PrivStub(p, f"k{i}", others=[e for j, e in enumerate(t.xkeys) if j != i]) for i, p in enumerate(t.points)]
    f = c06.sym_fields()
    tx = c06.build_tx(t.md, t.spk, [], [], 1, 0, f)
    hts = []
    for i, fm in zip(signers, forms):
        if fm == "d":
            hts.append(0)
        else:
            h = SI.var(f"ht{i}", 1, 0x83)
            c06.assume_nq(s_or(*[h == v for v in HASH_TYPES]))
            hts.append(h)

    def wit(env):
        return {"k": k, "n": n, "signers": list(signers), "hash_types": [h if isinstance(h, int) else env[f"ht{i}"] for i, h in zip(signers, hts)],
                "tx": dict({v: env[v] for v in c06.TXVARS}, prev=bytes_env(env, "prev", 32).hex())}
    try:
        tap_script = t.md.taproot.MultiSigTapScript(list(t.points), k)
        cb = tap_script.tap_leaf().control_block(t.internal_point)
        tx.initialize_p2tr_multisig(0, cb, tap_script)
        by = dict(zip(signers, hts))
        sigs = [tx.get_sig_taproot(0, privs[i], ext_flag=1, hash_type=by[i]) if i in by else b"" for i in range(n)]
        ok = bool(tx.finalize_p2tr_multisig(0, sigs))
        if ok:
            ok = bool(tx.verify_input(0))
        how = "ok" if ok else "rejected"
    except Exception as ex:  # noqa
        ok, how = False, "error:" + type(ex).__name__
    check(ok, "a k-of-n tapscript leaf spend signed by a k-subset of its keys through the library does not verify", witness=wit)
    return how


def ob_leaf_spend(k, n, cases):
    runs = [sym_run(lambda: _leaf_spend_path(k, n, tuple(sg), fm), timeout_ms=60000, max_violations=2, max_paths=4000) for sg, fm in cases]
    r = merge_runs(runs)
    r["sample"] = {"leaf": f"{k}-of-{n} CHECKSIG/CHECKSIGADD", "signer subsets x signature forms": [[list(sg), fm] for sg, fm in cases],
                   "explicit hash type bytes": "symbolic per signer in " + str(list(HASH_TYPES)), "keys / signatures / transaction fields": "symbolic"}
    if "'ok'" not in r["classes"] and not r["violations"]:
        r["inconclusive"].append("reachability twin: outcome 'ok' never reached")
    return r


def _real_leaf_spend(pts, privs, k, kind, own, hts, f):
    """the library's own flow on real keys: returns (finalize result, verify_input, every signature valid on its own under BIP340)"""
    from buidl import taproot, tx as txm, script as sc
    from buidl.ecc import SchnorrSignature
    from checks.c02 import ref_verify
    t = taproot.TapRootMultiSig(pts, k)
    internal = t.default_internal_pubkey
    if kind == "single":
        root = leaf = t.single_leaf()
    else:
        root = t.multi_leaf_tree()
        want = sorted(pts[i].xonly() for i in own)
        leaf, = [lf for lf in root.leaves() if sorted(p.xonly() for p in lf.tap_script.points) == want]
    ti = txm.TxIn(bytes.fromhex(f["prev"]), f["pidx"], sc.Script([]), f["seq"])
    ti._value = f["value"]
    ti._script_pubkey = internal.p2tr_script(root.hash())
    tx = txm.Tx(f["version"], [ti], [txm.TxOut(f["amount"], sc.P2WPKHScriptPubKey(b"\x42" * 20))], f["locktime"], network="mainnet", segwit=True)
    tx.initialize_p2tr_multisig(0, root.control_block(internal, leaf), leaf.tap_script)
    by = dict(zip(own, hts))
    sigs, each = [], True
    for i in range(len(pts)):
        if i in by:
            sg = tx.get_sig_taproot(0, privs[i], ext_flag=1, hash_type=by[i])
            each = each and ref_verify(pts[i].x.num, tx.sig_hash_bip341(0, ext_flag=1, hash_type=by[i]), sg[:64])
            sigs.append(sg)
        elif kind == "single":
            sigs.append(b"")
    try:
        fin = bool(tx.finalize_p2tr_multisig(0, sigs))
        ver = bool(tx.verify_input(0))
    except Exception as ex:  # noqa
        return f"raised {ex!r}", False, each
    return fin, ver, each


def replay_leafspend(w):
    from buidl import pecc
    k, n, own, hts = w["k"], w["n"], list(w["signers"]), list(w["hash_types"])
    privs = sorted((pecc.PrivateKey(0xC13 * 7919 + 104729 * i) for i in range(n + 1)), key=lambda p: p.point.xonly())
    res = [("single_leaf", _real_leaf_spend([p.point for p in privs[:n]], privs[:n], k, "single", own, hts, w["tx"]))]
    if n == k and n < 5:
        # the same k keys as one leaf of the multi_leaf_tree of a k-of-(k+1) wallet (a merkle path above the leaf)
        res.append(("multi_leaf_tree", _real_leaf_spend([p.point for p in privs], privs, k, "multi", own, hts, w["tx"])))
    bad = [(nm, r) for nm, r in res if r[2] and not (r[0] is True and r[1])]
    return {"violated": bool(bad), "observed": f"{k}-of-{n} leaf, signers {own} with hash types {hts}: " +
            "; ".join(f"{nm}: finalize_p2tr_multisig -> {r[0]}, verify_input -> {r[1]}, each signature valid on its own: {r[2]}" for nm, r in res),
            "expected": "finalize_p2tr_multisig and verify_input both True"}


def _forms(k):
    return ["".join(x) for x in itertools.product("dx", repeat=k)]


def obligations(tier):
    q = tier == "quick"
    obs = [Ob("O3-subsets-concrete", ob_subsets, replay="subsets", budget_s=1500)]
    for n in ((2,) if q else (2, 3)):
        for wr in (False, True):
            obs.append(Ob("O1-aggregate", ob_aggregate, {"n": n, "with_root": wr, "tamper": False}, replay="aggregate", budget_s=3000))
            if not (q and wr):
                # the tweaked, altered case needs ~7 CPU-minutes: thorough tier only
                obs.append(Ob("O1-altered", ob_aggregate, {"n": n, "with_root": wr, "tamper": True}, replay="aggregate", budget_s=4000))
        obs.append(Ob("O2-order", ob_order, {"n": n}, replay="order", budget_s=1500))
        if n == 2 or not q:
            # history on one MuSigTapScript object: an earlier round for the same message and merkle root with other nonces, abandoned
            # after participant 0's partial signature; the next round (fresh nonces) must still sum to a valid signature
            for wr in ((False,) if q else (False, True)):
                for pr in ((True, "signed") if q else (True, "signed", "complete")):
                    obs.append(Ob("O1-aggregate-history", ob_aggregate, {"n": n, "with_root": wr, "tamper": False, "prior": pr},
                                  replay="aggregate", budget_s=3000))
    # O4: leaf spends through the library's helpers, every k-subset of the leaf's keys, every combination of signature forms
    # (64-byte default / 65-byte explicit, the explicit hash type byte symbolic and independent per signer)
    for (k, n) in (((1, 2), (2, 2), (2, 3)) if q else ((1, 2), (2, 2), (2, 3), (3, 3), (1, 3), (3, 4), (2, 4))):
        for sg in itertools.combinations(range(n), k):
            obs.append(Ob("O4-leaf-spend", ob_leaf_spend, {"k": k, "n": n, "cases": [(sg, fm) for fm in _forms(k)]}, replay="leafspend",
                          budget_s=3000))
    return obs
