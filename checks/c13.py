"""C13 — MuSig aggregation yields valid BIP340 signatures; k-of-n trees cover all subsets (DESIGN.md section 3, C13)."""
import itertools

from symx import core, loader, shims, field
from symx.core import SI, SBytes, check, s_and, s_or, s_not, s_implies, assume, bytes_env, Out, conc_value, wrapb, lift, branch
from vlib.run import Ob, sym_run, merge_runs, conc_run
from checks._group import Env, with_env, N, P

PROPERTY = "C13"

META = {
    "bounds": {
        "quick": {"aggregation": "2 participants: all secrets d_i in [1,N-1] (all key parities), nonce pairs in [1,N-1], all 32-byte messages, "
                                 "merkle root absent / any 32 bytes; every parity path of R and of the (tweaked) aggregate key",
                  "alteration": "the sum of partial signatures offset by any delta in [1,N-1] (covers a missing or altered partial signature), untweaked key",
                  "order": "both orders of 2 keys"},
        "thorough": {"aggregation": "2 and 3 participants", "alteration": "also with the taproot tweak", "order": "all 6 orders of 3 keys"}},
    "outside": ["'each k-subset owns exactly one leaf and its spend verifies' is a finite structural fact about itertools.combinations with no "
                "symbolic content: executed concretely for (k,n) <= (3,4) with real keys and reported as NOT solver-decided (O3)",
                "participants whose x-only keys coincide (assumed pairwise different: the key set is a set)",
                "key sets of size 4 and 5 (same code path; the solver work grows with the number of sort orders)"],
    "stubs": ["abstract prime-order group with X injective up to sign", "tagged SHA-256 uninterpreted", "secrets.randbelow returns arbitrary values",
              "dicts keyed by x-only keys hash by provenance (core.HASH_BY_PROVENANCE) under the pairwise-distinct-keys assumption"],
    "assumptions": ["prime-order group (C03)", "aggregate / tweaked keys and the aggregate nonce are not the point at infinity (probability 2^-256)",
                    "verify_schnorr == BIP340 verification (C02)"],
}
MANIFEST = {"technique": "symbolic execution of the real MuSigTapScript code over an abstract prime-order group; the BIP340 equation for the sum of "
                         "partial signatures is decided by the GF(N) canonical form, ranges/parities by z3 (LIA)"}


def _setup(e, n, with_root):
    tm = loader.load("taproot")
    core.HASH_BY_PROVENANCE[0] = True
    ds = [SI.var(f"d{i}", 1, N - 1) for i in range(n)]
    privs = [e.pecc.PrivateKey(d) for d in ds]
    pts = [p.point for p in privs]
    xs = [e.grp.coords(d)[0] for d in ds]
    for i in range(n):
        for j in range(i + 1, n):
            assume(core.wrap(xs[i]) != core.wrap(xs[j]))
    msg = SBytes.sym("msg", 32)
    root = SBytes.sym("root", 32) if with_root else b""
    return tm, ds, privs, pts, msg, root


@with_env("taproot")
def _agg_path(e, n, with_root, tamper, prior=False):
    # the additive-structure / injectivity axioms are only needed to prove that an ALTERED sum is rejected
    e.grp.injective_x = tamper
    e.fld.link_differences = tamper
    F = e.fld
    tm, ds, privs, pts, msg, root = _setup(e, n, with_root)
    nonces = [(SI.var(f"k{i}a", 1, N - 1), SI.var(f"k{i}b", 1, N - 1)) for i in range(n)]

    def wit(env):
        return {"n": n, "d": [env[f"d{i}"] for i in range(n)], "k": [[env[f"k{i}a"], env[f"k{i}b"]] for i in range(n)],
                "msg": bytes_env(env, "msg", 32).hex(), "root": bytes_env(env, "root", 32).hex() if with_root else "",
                "delta": env.get("delta", 0), "prior": [[env[f"o{i}a"], env[f"o{i}b"]] for i in range(n)] if prior else None}
    try:
        musig = tm.MuSigTapScript(pts)
        mine = tm.MuSigTapScript(pts) if prior else musig
    except AttributeError:
        return "agg-infinity"  # aggregate key at infinity: excluded (stated assumption)
    assume(wrapb(core.b_not(F.is_zero_cond(field.lift_si(musig.point.d)))))
    if prior:
        # history: participant 0 keeps its own MuSigTapScript object, which already went through an abandoned attempt for the same
        # message with other nonces (coefficient and k evaluated); it then joins this session with the same object
        old = [(SI.var(f"o{i}a", 1, N - 1), SI.var(f"o{i}b", 1, N - 1)) for i in range(n)]
        try:
            osums = mine.nonce_sums([(a * e.G, b * e.G) for a, b in old])
            mine.compute_r(osums, msg)
            mine.compute_k(old[0], osums, msg)
        except AttributeError:
            return "infinity"
    pairs = [(a * e.G, b * e.G) for a, b in nonces]
    sums = musig.nonce_sums(pairs)
    try:
        r = musig.compute_r(sums, msg)
        assume(wrapb(core.b_not(F.is_zero_cond(field.lift_si(r.d)))))
        s_sum = 0
        for idx, ((a, b), priv) in enumerate(zip(nonces, privs)):
            inst = mine if idx == 0 else musig
            k = inst.compute_k((a, b), sums, msg)
            s_sum = s_sum + inst.sign(priv, k, r, msg, root)
    except AttributeError:
        return "infinity"  # a nonce sum / tweaked key at infinity: excluded (stated assumption)
    if tamper:
        delta = SI.var("delta", 1, N - 1)
        try:
            musig.get_signature(s_sum + delta, r, msg, root)
        except (ValueError, AttributeError):
            check(True, "rejected")
            return "rejected"
        check(False, "an altered sum of partial signatures produced a signature that passes verification", witness=wit)
        return "accepted-altered"
    try:
        sig = musig.get_signature(s_sum, r, msg, root)
    except ValueError:
        check(False, "the sum of all partial signatures is not a valid BIP340 signature for the aggregate key", witness=wit)
        return "invalid"
    except AttributeError:
        return "infinity"
    ser = sig.serialize()
    check(len(ser) == 64, "signature length", witness=wit)
    return "valid"


def ob_aggregate(n, with_root, tamper, prior=False):
    r = sym_run(lambda: _agg_path(n, with_root, tamper, prior), mode="int", timeout_ms=120000, max_paths=6000, max_violations=6)
    want = "'rejected'" if tamper else "'valid'"
    if want not in r["classes"]:
        r["inconclusive"].append(f"reachability twin: class {want} never reached")
    r["sample"] = {"participants": n, "secrets/nonces": "symbolic", "merkle root": "32 symbolic bytes" if with_root else "absent",
                   "altered": tamper}
    return r


def replay_aggregate(w):
    """real keys, real nonces, real hashes: run the library's own MuSig flow and judge with the BIP340 reference verifier"""
    from buidl import pecc, taproot
    from checks.c02 import ref_verify
    n = w["n"]
    privs = [pecc.PrivateKey(d) for d in w["d"]]
    pts = [p.point for p in privs]
    msg = bytes.fromhex(w["msg"])
    root = bytes.fromhex(w["root"])
    musig = taproot.MuSigTapScript(pts)
    mine = musig
    if w.get("prior"):
        mine = taproot.MuSigTapScript(pts)
        old = [tuple(x) for x in w["prior"]]
        if old == [tuple(x) for x in w["k"]]:
            old = [(a + 1, b + 2) for a, b in old]
        osums = mine.nonce_sums([(a * pecc.G, b * pecc.G) for a, b in old])
        mine.compute_r(osums, msg)
        mine.compute_k(old[0], osums, msg)
    pairs = [(a * pecc.G, b * pecc.G) for a, b in w["k"]]
    sums = musig.nonce_sums(pairs)
    r = musig.compute_r(sums, msg)
    s_sum = 0
    for idx, ((a, b), priv) in enumerate(zip(w["k"], privs)):
        inst = mine if idx == 0 else musig
        k = inst.compute_k((a, b), sums, msg)
        s_sum += inst.sign(priv, k, r, msg, root)
    ext = musig.point.tweaked_key(root) if root else musig.point.even_point()
    delta = w.get("delta", 0)
    try:
        sig = musig.get_signature(s_sum + delta, r, msg, root)
        ok = True
    except ValueError:
        ok = False
    if delta:
        return {"violated": ok, "observed": f"altered sum accepted={ok}"}
    good = ok and ref_verify(ext.x.num, msg, sig.serialize())
    return {"violated": not good, "observed": f"n={n} root={'yes' if root else 'no'}: get_signature ok={ok}"}


@with_env("taproot")
def _order_path(e, n):
    F = e.fld
    tm, ds, privs, pts, msg, root = _setup(e, n, False)
    wit = lambda env: {"n": n, "d": [env[f"d{i}"] for i in range(n)]}  # noqa
    base = tm.MuSigTapScript(pts)
    for perm in itertools.permutations(range(n)):
        other = tm.MuSigTapScript([pts[i] for i in perm])
        check(F.same(other.point.d, base.point.d), "aggregate key depends on the order in which participants are listed", witness=wit)
        check(other.commands == base.commands, "leaf script depends on the order", witness=wit)
    return "ok"


def ob_order(n):
    r = sym_run(lambda: _order_path(n), mode="int", timeout_ms=60000)
    r["sample"] = {"keys": n, "orders": "all permutations"}
    return r


def replay_order(w):
    from buidl import pecc, taproot
    pts = [pecc.PrivateKey(d).point for d in w["d"]]
    base = taproot.MuSigTapScript(pts)
    bad = any(taproot.MuSigTapScript([pts[i] for i in perm]).point != base.point for perm in itertools.permutations(range(len(pts))))
    return {"violated": bad, "observed": f"d={w['d']}"}


def _leaf_facts(k, n):
    """structural facts about the generated trees for one (k, n), on real keys: returns the list of problems"""
    from buidl import pecc, taproot
    from itertools import combinations
    pts = [pecc.PrivateKey(1000 + 7 * i).point for i in range(n)]
    xs = sorted(p.xonly() for p in pts)
    t = taproot.TapRootMultiSig(pts, k)
    probs = []
    # single leaf: one script that commits to ALL n keys and the threshold k (CHECKSIG, then CHECKSIGADD per further key, k, EQUAL)
    cmds = list(t.single_leaf().tap_script.commands)
    want = [xs[0], 0xAC]
    if n > 1:
        for x in xs[1:]:
            want += [x, 0xBA]
        want += [80 + k, 0x87]
    if cmds != want:
        probs.append(f"single_leaf script for {k}-of-{n} is not <keys..> CHECKSIG/CHECKSIGADD {k} EQUAL over all {n} keys")
    want_sets = sorted(sorted(p.xonly() for p in c) for c in combinations(pts, k))
    got = sorted(sorted(p.xonly() for p in lf.tap_script.points) for lf in t.multi_leaf_tree().leaves())
    if got != want_sets:
        probs.append(f"multi_leaf_tree of {k}-of-{n}: leaves do not correspond one-to-one to the k-subsets")
    for lf in t.multi_leaf_tree().leaves():
        ks = sorted(p.xonly() for p in lf.tap_script.points)
        c = list(lf.tap_script.commands)
        w = [ks[0], 0xAC]
        if k > 1:
            for x in ks[1:]:
                w += [x, 0xBA]
            w += [80 + k, 0x87]
        if c != w:
            probs.append(f"multi_leaf_tree leaf script of {k}-of-{n} does not require all {k} keys of its subset")
            break
    if k >= 2:
        mt = t.musig_tree().leaves()
        agg = sorted(taproot.MuSigTapScript(list(c)).point.xonly() for c in combinations(pts, k))
        if sorted(lf.tap_script.commands[0] for lf in mt) != agg:
            probs.append(f"musig_tree of {k}-of-{n}: leaves are not the aggregate keys of the k-subsets")
    return probs


def ob_subsets():
    """NOT solver-decided (no symbolic content): the k-subset / leaf correspondence and the leaf script structure of the generated
    trees, executed with real keys for all 1 <= k <= n <= 4, n >= 2; reported with engine 'concrete'"""
    import time
    t0 = time.time()
    viol = []
    detail = []
    for n in range(2, 5):
        for k in range(1, n + 1):
            probs = _leaf_facts(k, n)
            detail.append((k, n, len(probs)))
            for pr in probs:
                viol.append({"label": pr, "witness": {"k": k, "n": n}, "replay": "subsets"})
    return {"engine": "concrete", "stats": core.Stats().asdict(), "classes": {}, "violations": viol, "inconclusive": [],
            "wall_s": round(time.time() - t0, 3), "sample": {"trusted_base": "tree generators on real keys", "(k, n, problems)": detail},
            "symbolic": False, "vars": []}


def replay_subsets(w):
    probs = _leaf_facts(w["k"], w["n"])
    return {"violated": bool(probs), "observed": "; ".join(probs) or "structure as specified"}


def obligations(tier):
    q = tier == "quick"
    obs = [Ob("O3-subsets-concrete", ob_subsets, replay="subsets", budget_s=1500)]
    for n in ((2,) if q else (2, 3)):
        for wr in (False, True):
            obs.append(Ob("O1-aggregate", ob_aggregate, {"n": n, "with_root": wr, "tamper": False}, replay="aggregate", budget_s=3000))
            if not (q and wr):
                # the tweaked, altered case needs ~7 CPU-minutes: thorough tier only
                obs.append(Ob("O1-altered", ob_aggregate, {"n": n, "with_root": wr, "tamper": True}, replay="aggregate", budget_s=4000))
        obs.append(Ob("O2-order", ob_order, {"n": n}, replay="order", budget_s=1500))
        if n == 2 or not q:
            obs.append(Ob("O1-aggregate-history", ob_aggregate, {"n": n, "with_root": False, "tamper": False, "prior": True}, replay="aggregate",
                          budget_s=3000))
    return obs
