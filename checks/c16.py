"""C16 — wsh(sortedmulti) descriptors: checksum, single-character error detection, round trip / addresses (DESIGN.md section 3, C16; partial).

What is run: the *real* calc_core_checksum / calc_poly_mod / P2WSHSortedMulti.__init__ of /repo/buidl/descriptor.py (current source,
loaded as sbuidl.descriptor).  Python `str` stays concrete in this engine, so a character that the solver quantifies over is a
handle `DCh` = "the character at (symbolic) position p of Bitcoin Core's 95-character INPUT_CHARSET", and a text with such
characters is an `HStr`.  Three seams make the real code accept handles (everything between them is the unmodified source):
  * the module constants DESCRIPTOR_INPUT_CHARSET / DESCRIPTOR_CHECKSUM_CHARSET are replaced by stand-ins that answer
    `.find(handle)` / `[symbolic index]` through tables computed from the *real* strings (so a changed table is seen);
  * `"".join(ret)` (a method of a literal cannot be shadowed) is rewritten at load time to a handle-preserving join;
  * calc_poly_mod is if-converted from its current source (symx.ifconv; `if c0 & 1: c ^= K` -> ite) so that a symbolic
    state does not fork 2^5 ways per character.
GF(2)-linear state (the 40-bit polymod register) is kept in XOR-affine normal form (symx.anf) while the real code runs;
the solver is asked about the normal form.  The plain (un-normalised) encoding is what is compared for lengths <= 2, where z3 can
still do the parity reasoning by itself, and the two encodings are compared with each other there.
"""
import ast
import hashlib
import itertools
import time

from symx import core, loader, ifconv, anf
from symx.anf import AInt
from symx.core import SI, SB, check, s_and, s_or, s_not, wrap, lift, Out
from vlib.run import Ob, sym_run, merge_runs, conc_run

PROPERTY = "C16"

META = {
    "bounds": {
        "quick": {
            "polymod step": "every state c in [0, 2^64) and every symbol in [0, 63]: real calc_poly_mod == Core's PolyMod, result < 2^40, "
                            "and the normal-form encoding of the step == the plain encoding",
            "checksum == DescriptorChecksum": "every text of 0..24 characters over the 95-character charset (each character a symbolic "
                                              "charset position): whole real function in normal form; lengths 0..2 additionally without the "
                                              "normal form (plain bit-vector encoding, z3 alone; normal form == plain encoding for lengths "
                                              "0..1); lengths 0..64 compositionally (calc_poly_mod "
                                              "uninterpreted, symbol string against the closed form, state threading, final xor, extraction)",
            "single-character substitution": "descriptors of 1, 2 and 3 keys (158, 297 and 436 characters; key records of "
                                             "test_descriptor.py): EVERY body position x EVERY replacement character of the 95-character "
                                             "charset (symbolic), and every checksum position x every replacement character",
            "concrete scaffolding (NOT solver-decided)": "4 wallets (1-of-1, 1-of-2, 2-of-3, 1-of-2 with a SLIP-132 Vpub): text round trip, all "
                                                         "permutations of the key records, addresses (receive/change, index 0..2) against an "
                                                         "independent P2WSH construction; native single-character sweep of the 1-of-1 record "
                                                         "at all non-xpub positions and every 8th xpub position"},
        "thorough": {
            "polymod step": "same",
            "checksum == DescriptorChecksum": "normal form: lengths 0..64; plain: 0..2 (normal form == plain encoding for 0..2); compositional: 0..64",
            "single-character substitution": "additionally the 1-of-4 descriptor (575 characters) and the mixed SLIP-132 descriptor with "
                                             "a long derivation path (341 characters)",
            "concrete scaffolding (NOT solver-decided)": "same wallets; native sweep of every position of the 1-of-1 and 1-of-2 records"}},
    "outside": [
        "NOT decided by the solver (regex / str processing and concrete elliptic-curve arithmetic leave nothing to quantify over); run "
        "concretely on a handful of wallets with real keys and reported as engine 'concrete': (a) parsing the text reproduces the same "
        "descriptor, (b) the address at (branch, index) equals the P2WSH of the m-of-n script over the sorted child keys, (c) "
        "independence from the order in which key records are supplied, (d) receive and change addresses differ",
        "substitution detection is solver-decided at the checksum layer: 'if a text that differs from the checksummed one in one "
        "character reaches calc_core_checksum, the comparison in __init__ raises'.  The altered character is injected at the entry "
        "of calc_core_checksum (seam) because the layers in front of it (regex, base58check, path validation) only run on concrete "
        "str; that those layers either refuse the altered text or pass it on unchanged is only swept concretely (O3-sweep).  Known "
        "exceptions where the text layer normalises (a backslash before '/', which parse() deletes; a sign or space in a multi-digit "
        "account index) turn a substitution into a text of another length: their detection rests on the 40-bit checksum value "
        "(2^-40), not on the distance property",
        "judgement: 'descriptor body or checksum' is read as the characters before '#' and the 8 characters after it.  Replacing the "
        "'#' separator itself by any other character makes parse() ignore the checksum altogether and accept (observed in O3-sweep, "
        "reported, not flagged)",
        "judgement: key records are 'valid' when their fingerprint is lower-case hex as Bitcoin Core prints it; __init__ also accepts "
        "upper-case hex fingerprints, whose descriptor text parse() then refuses (observed in O3, reported, not flagged)",
        "characters outside the 95-character charset (calc_core_checksum raises ValueError; checked concretely in O0)",
        "lengths above 64 for fully symbolic texts; descriptors of more than 4 keys; Bitcoin Core's INPUT_CHARSET / CHECKSUM_CHARSET / "
        "generator constants are the transcription in this file (anchored concretely on published descriptor checksums in O0)"],
    "stubs": [
        "DESCRIPTOR_INPUT_CHARSET / DESCRIPTOR_CHECKSUM_CHARSET replaced by table stand-ins built from the real strings (handles)",
        "\"\".join(...) in descriptor.py rewritten to a handle-preserving join (loader.PATCHES)",
        "calc_poly_mod if-converted from current source (5 rewrites; compared with the unconverted and the native function on "
        "random inputs in O0) and, in the 'normal form' obligations, called with its state lifted to symx.anf.AInt (representation "
        "change only; solver-checked against the plain encoding for one step over all states and for whole texts of length <= 2)",
        "O1-composed only: calc_poly_mod is an uninterpreted 40-bit function (the same symbol for implementation and reference); "
        "justified by O1-step (pointwise equality with Core's PolyMod on the whole domain)",
        "O2 body positions: alteration seam at the entry of calc_core_checksum (see 'outside')",
        "print() empty"],
    "assumptions": [
        "Bitcoin Core's DescriptorChecksum / PolyMod as transcribed in spec_polymod / spec_checksum / spec_symbols_closed",
        "calc_poly_mod is a pure function of its two arguments (read off the source; needed for the uninterpreted-function composition)"],
}

MANIFEST = {"technique": "symbolic execution of the real calc_core_checksum / calc_poly_mod / P2WSHSortedMulti.__init__ on texts whose "
                         "characters are symbolic charset positions (handles); polymod state in XOR-affine normal form; z3 decides "
                         "equality with a transcription of Bitcoin Core's DescriptorChecksum and the infeasibility of an undetected "
                         "single-character substitution at every position; parse / address clauses concrete only (flagged)"}

# ------------------------------------------------------------------------------------------------ Bitcoin Core constants (harness copy)

CORE_IN = ("0123456789()[],'/*abcdefgh@:$%{}"
           "IJKLMNOPQRSTUVWXYZ&+-.;<=>?!^_|~"
           "ijklmnopqrstuvwxyzABCDEFGH`#\"\\ ")
CORE_OUT = "qpzry9x8gf2tvdw0s3jn54khce6mua7l"
GEN = (0xF5DEE51989, 0xA9FDCA3312, 0x1BAB10E32D, 0x3706B1677A, 0x644D626FFD)
M40 = (1 << 40) - 1
CORE_OUT2IN = tuple(CORE_IN.find(c) for c in CORE_OUT)
LOWER = tuple(CORE_IN.find(c.lower()) for c in CORE_IN)
UPPER = tuple(CORE_IN.find(c.upper()) for c in CORE_IN)

# published descriptor checksums (Bitcoin Core doc/descriptors.md and specter-desktop's vectors quoted in test_descriptor.py)
ANCHORS = [
    ("wpkh(02f9308a019258c31049344f85f89d5229b531c845836f99b08601f113bce036f9)", "8zl0zxma"),
    ("pkh(02c6047f9441ed7d6d3045406e95c07cd85c778e4b8cef3ca7abac09b95c709ee5)", "8fhd9pwu"),
    ("sh(multi(2,[00000000/111'/222]xpub6ERApfZwUNrhLCkDtcHTcxd75RbzS1ed54G1LkBUHQVHQKqhMkhgbmJbZRkrgZw4koxb5JaHWkY4ALHY2grBGRjaDMzQLcgJvLJuZZvRcEL,"
     "xpub68NZiKmJWnxxS6aaHmn81bvJeTESw724CRDs6HbuccFQN9Ku14VQrADWgqbhhTHBaohPX4CjNLf9fq9MYo6oDaPPLPxSb7gwQN3ih19Zm4Y/0))", "tjg09x5t"),
    ("sh(wsh(sortedmulti(2,029dfee2aaa23e2220476c34eda9a76591c1257f8dfce54e42ff014f922ede0838,"
     "03151d5b21c6491915e7a103bff913b4d85246c8209a342bb7104850e4cb394686,03646d8e624fedb63739e7963d0c7ad368a7f7935557b2b28c4c954882b19fe6e1)))", "rzmdthwy"),
]


# ------------------------------------------------------------------------------------------------ text handles

def _sel(table, x):
    if isinstance(x, int):
        return table[x]
    return wrap(core.n_sel(table, x.n))


class DCh:
    """one character of Core's INPUT_CHARSET, identified by its position there (int or SI in [0,94]).  src = (table, index) when
    the character was produced by indexing a 32-character table (table[k] = INPUT position of the k-th table character)"""
    __slots__ = ("pos", "src")

    def __init__(self, pos, src=None):
        self.pos = pos
        self.src = src

    def lower(self):
        return DCh(_sel(LOWER, self.pos))

    casefold = lower

    def upper(self):
        return DCh(_sel(UPPER, self.pos))

    def __repr__(self):
        return "<sym char>"

    __str__ = __repr__

    def __format__(self, spec):
        return "<sym char>"


def ch_eq(a, b):
    """equality of two characters (1-character str or DCh) -> bool / SB"""
    if isinstance(a, str) and isinstance(b, str):
        return a == b
    if isinstance(a, str):
        a, b = b, a
    if isinstance(b, str):
        k = CORE_IN.find(b) if len(b) == 1 else -1
        if k < 0:
            return False
        if a.src is not None:
            tbl, idx = a.src
            js = [j for j, v in enumerate(tbl) if v == k]
            return s_or(*[idx == j for j in js]) if js else False
        return a.pos == k
    if a.src is not None and b.src is not None and a.src[0] == b.src[0] and len(set(a.src[0])) == len(a.src[0]):
        return a.src[1] == b.src[1]   # same injective table: the characters are equal iff the indexes are
    return a.pos == b.pos


class HStr:
    """text handle: list of 1-character str and DCh"""

    def __init__(self, items):
        self.items = list(items)

    def __len__(self):
        return len(self.items)

    def __iter__(self):
        return iter(self.items)

    def __bool__(self):
        return len(self.items) > 0

    def __getitem__(self, k):
        if isinstance(k, slice):
            return hnorm(HStr(self.items[k]))
        return self.items[k]

    def __add__(self, o):
        if isinstance(o, (str, HStr)):
            return HStr(self.items + list(o))
        return NotImplemented

    def __radd__(self, o):
        if isinstance(o, str):
            return HStr(list(o) + self.items)
        return NotImplemented

    def _map(self, f):
        return HStr([getattr(i, f)() for i in self.items])

    def lower(self):
        return self._map("lower")

    def upper(self):
        return self._map("upper")

    def casefold(self):
        return self._map("casefold")

    def strip(self):
        it = list(self.items)
        while it and isinstance(it[0], str) and it[0].isspace():
            it.pop(0)
        while it and isinstance(it[-1], str) and it[-1].isspace():
            it.pop()
        return HStr(it)

    def _eq(self, o):
        if not isinstance(o, (str, HStr)):
            return False
        o = list(o)
        if len(o) != len(self.items):
            return False
        conds = []
        for a, b in zip(self.items, o):
            if a is b:
                continue
            c = ch_eq(a, b)
            if c is False:
                return False
            conds.append(c)
        return s_and(*conds) if conds else True

    def __eq__(self, o):
        return self._eq(o)

    def __ne__(self, o):
        return s_not(self._eq(o))

    def __hash__(self):
        # consistent with ==: fully concrete texts hash like the str they equal; texts with symbolic characters all hash alike, so
        # that set / dict look-ups among them are decided by == (which forks).  A look-up of a symbolic text against *concrete* str
        # keys of the same container is not modelled: the path set is marked inconclusive (the unchanged library never hashes these).
        if all(isinstance(i, str) for i in self.items):
            return hash("".join(self.items))
        if core.CTX is not None:
            note = ("a text handle with symbolic characters was hashed (set/dict key): compared by equality with other handles only; "
                    "look-ups against concrete str keys of the same container are not modelled")
            if note not in core.CTX.inconclusive:
                core.CTX.inconclusive.append(note)
        return 0x5159

    def __repr__(self):
        return "".join(i if isinstance(i, str) else "\N{WHITE SQUARE}" for i in self.items)

    __str__ = __repr__

    def __format__(self, spec):
        return repr(self)


def hnorm(s):
    if isinstance(s, HStr) and all(isinstance(i, str) for i in s.items):
        return "".join(s.items)
    return s


def sx_sjoin(sep, parts):
    parts = list(parts)
    if isinstance(sep, str) and all(isinstance(p, str) for p in parts):
        return sep.join(parts)
    items = []
    for k, p in enumerate(parts):
        if k:
            items.extend(list(sep))
        if isinstance(p, DCh):
            items.append(p)
        elif isinstance(p, (str, HStr)):
            items.extend(list(p))
        else:
            raise TypeError(f"sequence item {k}: expected str instance, {type(p).__name__} found")
    return hnorm(HStr(items))


class InCharset:
    """stands for DESCRIPTOR_INPUT_CHARSET: find(handle) = position, *in the real string*, of the character the handle denotes"""

    def __init__(self, real):
        self.real = real
        self.table = tuple(real.find(c) for c in CORE_IN)
        self.identity = self.table == tuple(range(len(CORE_IN)))

    def find(self, ch, *a):
        if isinstance(ch, DCh):
            p = ch.pos
            if isinstance(p, int):
                return self.table[p]
            if self.identity:
                return p
            return _sel(self.table, p)
        return self.real.find(ch, *a)

    def index(self, ch):
        r = self.find(ch)
        if isinstance(r, int) and r < 0:
            raise ValueError("substring not found")
        return r

    def __contains__(self, ch):
        r = self.find(ch)
        return bool(r != -1)

    def __len__(self):
        return len(self.real)

    def __iter__(self):
        return iter(self.real)

    def __getitem__(self, k):
        return self.real[k]

    def __str__(self):
        return self.real


class OutCharset:
    """stands for DESCRIPTOR_CHECKSUM_CHARSET: [symbolic index] = handle of the real string's character at that index"""

    def __init__(self, real):
        self.real = real
        self.table = tuple(CORE_IN.find(c) for c in real)

    def __getitem__(self, k):
        if isinstance(k, AInt):
            k = k.to_si()
        if isinstance(k, SI):
            if k.n.lo < 0 or k.n.hi >= len(self.table) or -1 in self.table:
                raise core.Unsupported("checksum character table indexed outside its handle range")
            return DCh(_sel(self.table, k), src=(self.table, k))
        return self.real[k]

    def find(self, ch, *a):
        return self.real.find(ch, *a)

    def __contains__(self, ch):
        return ch in self.real

    def __len__(self):
        return len(self.real)

    def __iter__(self):
        return iter(self.real)

    def __str__(self):
        return self.real


# ------------------------------------------------------------------------------------------------ loading the code under test

class _Seams(ast.NodeTransformer):
    """"".join(x) -> __sx_sjoin__("", x)"""

    def visit_Call(self, node):
        self.generic_visit(node)
        f = node.func
        if isinstance(f, ast.Attribute) and f.attr == "join" and isinstance(f.value, ast.Constant) and isinstance(f.value.value, str):
            return ast.copy_location(ast.Call(func=ast.Name(id="__sx_sjoin__", ctx=ast.Load()), args=[f.value] + node.args, keywords=[]), node)
        return node


loader.PATCHES["sbuidl.descriptor"] = lambda tree: _Seams().visit(tree)

_STATE = {}
UF_NAME = "descriptor_polymod"


def mods():
    """sbuidl.descriptor with the seams installed (once per process)"""
    if "d" not in _STATE:
        d = loader.load("descriptor")
        d.__dict__["__sx_sjoin__"] = sx_sjoin
        _STATE["real_in"], _STATE["real_out"] = d.DESCRIPTOR_INPUT_CHARSET, d.DESCRIPTOR_CHECKSUM_CHARSET
        d.DESCRIPTOR_INPUT_CHARSET = InCharset(d.DESCRIPTOR_INPUT_CHARSET)
        d.DESCRIPTOR_CHECKSUM_CHARSET = OutCharset(d.DESCRIPTOR_CHECKSUM_CHARSET)
        anf.install(d.__dict__)
        _STATE["pm_orig"] = d.calc_poly_mod
        conv, n = ifconv.convert(d.calc_poly_mod)
        _STATE["pm_rewrites"] = n
        _STATE["pm_conv"] = conv if n else d.calc_poly_mod
        _STATE["ccc"] = d.calc_core_checksum
        nat = loader.native("descriptor")
        core.UF_IMPL[UF_NAME] = lambda c, v: nat.calc_poly_mod(c, v)
        _STATE["d"] = d
    return _STATE["d"]


def _pm_anf(c, val):
    conv = _STATE["pm_conv"]
    if isinstance(c, (SI, AInt)) or isinstance(val, (SI, AInt)):
        return conv(AInt.of(c), val)
    return conv(c, val)


def _pm_uf(c, val):
    if isinstance(c, int) and isinstance(val, int):
        return _STATE["pm_conv"](c, val)
    cn, vn = lift(c), lift(val)
    if cn.lo < 0 or cn.hi > M40 or vn.lo < 0 or vn.hi > 63:
        raise core.Unsupported("polymod composition: argument outside the domain of the step lemma")
    return wrap(core.n_uf(UF_NAME, 40, [cn, vn], widths=(40, 6)))


def use_polymod(kind):
    d = mods()
    d.calc_poly_mod = {"plain": _STATE["pm_conv"], "anf": _pm_anf, "uf": _pm_uf}[kind]
    d.calc_core_checksum = _STATE["ccc"]
    return d


# ------------------------------------------------------------------------------------------------ reference (Bitcoin Core, script/descriptor.cpp)

def spec_polymod(c, val):
    """uint64_t PolyMod(uint64_t c, int val): works on int, SI and AInt"""
    c0 = (c >> 35) & 0xFF                                  # uint8_t c0 = c >> 35
    c = (((c & 0x7FFFFFFFF) << 5) ^ val) & M40
    for k in range(5):
        c = c ^ anf.gate((c0 >> k) & 1, GEN[k])            # if (c0 & (1 << k)) c ^= GEN[k]
    return c


def spec_checksum(poss, pm=spec_polymod, one=1):
    """std::string DescriptorChecksum(span): poss = INPUT_CHARSET positions of the characters; returns the 8 CHECKSUM_CHARSET indexes"""
    c = one
    cls = 0
    clscount = 0
    for pos in poss:
        c = pm(c, pos & 31)
        cls = cls * 3 + (pos >> 5)
        clscount += 1
        if clscount == 3:
            c = pm(c, cls)
            cls = 0
            clscount = 0
    if clscount > 0:
        c = pm(c, cls)
    for _ in range(8):
        c = pm(c, 0)
    c = c ^ 1
    return [(c >> (5 * (7 - j))) & 31 for j in range(8)]


def spec_symbols_closed(poss):
    """the symbol string fed to PolyMod, in closed form: per character its position inside its group of 32; after every third
    character (and after a trailing group of one or two) the base-3 number formed by the characters' group indexes"""
    out = []
    for g in range(0, len(poss), 3):
        grp = poss[g:g + 3]
        out += [p % 32 for p in grp]
        k = len(grp)
        out.append(sum((p // 32) * 3 ** (k - 1 - i) for i, p in enumerate(grp)))
    return out


def spec_chars(idxs):
    """CHECKSUM_CHARSET[idx] for each index, as text (handles for symbolic indexes)"""
    out = []
    for k in idxs:
        if isinstance(k, AInt):
            k = k.to_si()
        out.append(CORE_OUT[k] if isinstance(k, int) else DCh(_sel(CORE_OUT2IN, k), src=(CORE_OUT2IN, k)))
    return hnorm(HStr(out))


def ref_checksum(text):
    """concrete reference: None when a character is outside the charset (Core returns "")"""
    poss = [CORE_IN.find(ch) for ch in text]
    if any(p < 0 for p in poss):
        return None
    return "".join(CORE_OUT[k] for k in spec_checksum(poss))


def _text(poss):
    return "".join(CORE_IN[p] for p in poss)


# ------------------------------------------------------------------------------------------------ O0 trusted base (concrete)

def ob_tables():
    def f():
        import random
        d = use_polymod("plain")
        nat = loader.native("descriptor")
        ok = nat.DESCRIPTOR_INPUT_CHARSET == CORE_IN and nat.DESCRIPTOR_CHECKSUM_CHARSET == CORE_OUT
        ok = ok and len(set(CORE_IN)) == 95 and len(set(CORE_OUT)) == 32 and all(c in CORE_IN for c in CORE_OUT)
        ok = ok and _STATE["pm_rewrites"] == 5
        why = "" if ok else "charset tables / if-conversion count; "
        for t, want in ANCHORS:
            if ref_checksum(t) != want:
                ok, why = False, why + f"reference != published checksum for {t[:30]}..; "
        for _ in range(400):
            c, v = random.getrandbits(random.choice([1, 35, 40, 41, 64])), random.randrange(64)
            vals = {_STATE["pm_conv"](c, v), _STATE["pm_orig"](c, v), nat.calc_poly_mod(c, v), spec_polymod(c, v)}
            if len(vals) != 1:
                ok, why = False, why + f"calc_poly_mod({c},{v}) variants disagree {vals}; "
                break
        for _ in range(200):
            t = "".join(random.choice(CORE_IN) for _ in range(random.randrange(0, 120)))
            if not (nat.calc_core_checksum(t) == d.calc_core_checksum(t) == ref_checksum(t)):
                ok, why = False, why + f"checksum variants disagree on {t!r}; "
                break
        for bad in ("é", "a\tb", "wsh(€)"):
            try:
                nat.calc_core_checksum(bad)
                ok, why = False, why + f"character outside the charset accepted: {bad!r}; "
            except ValueError:
                pass
        return ok, why or ("real charset strings == Core's tables (95 / 32 distinct characters); reference == published checksums; "
                           "if-converted calc_poly_mod (5 rewrites) == original == native == reference on 400 random inputs; "
                           "shimmed calc_core_checksum == native == reference on 200 random texts; foreign characters raise ValueError")
    return conc_run(f, "descriptor charset tables, if-conversion and reference anchors (concrete)")


# ------------------------------------------------------------------------------------------------ O1 checksum == Core

def _step_path():
    mods()
    conv = _STATE["pm_conv"]
    c = SI.var("c", 0, (1 << 64) - 1)
    v = SI.var("val", 0, 63)
    wit = lambda env: {"c": env["c"], "val": env["val"]}  # noqa
    r = conv(c, v)
    e = spec_polymod(c, v)
    check(r == e, "calc_poly_mod(c, val) differs from Bitcoin Core's PolyMod", witness=wit)
    check(r <= M40, "calc_poly_mod leaves the 40-bit register", witness=wit)
    ra = conv(AInt.of(c), v)
    check(isinstance(ra, AInt) and (ra.to_si() == r), "normal-form encoding of one polymod step differs from the plain encoding", witness=wit)
    return Out("ok", r)


def ob_step():
    nat = loader.native("descriptor")
    r = sym_run(_step_path, timeout_ms=120000, expect_classes=["ok"],
                gen_env=lambda rng: {"c": rng.getrandbits(rng.choice([5, 36, 40, 64])), "val": rng.randrange(64)},
                native=lambda env: nat.calc_poly_mod(env["c"], env["val"]), n_val=40)
    r["sample"] = {"c": "symbolic in [0, 2^64)", "val": "symbolic in [0, 63]"}
    return r


def replay_step(w):
    from buidl import descriptor
    got = descriptor.calc_poly_mod(w["c"], w["val"])
    want = spec_polymod(w["c"], w["val"])
    return {"violated": got != want or got > M40, "observed": f"calc_poly_mod({w['c']:#x}, {w['val']}) = {got:#x}; Bitcoin Core PolyMod = {want:#x}"}


def _sym_text(n):
    poss = [SI.var(f"p[{i}]", 0, 94) for i in range(n)]
    text = HStr([DCh(p) for p in poss]) if n else ""
    wit = lambda env: {"pos": [env[f"p[{i}]"] for i in range(n)], "text": _text([env[f"p[{i}]"] for i in range(n)])}  # noqa
    return poss, text, wit


def _positions_of(s):
    """INPUT positions of the characters of a checksum text (str / HStr) for self-validation"""
    return [CORE_IN.find(ch) if isinstance(ch, str) else ch.pos for ch in s]


def _run_ccc(d, text, wit):
    try:
        return d.calc_core_checksum(text)
    except ValueError:
        check(False, "calc_core_checksum raises ValueError for a text over the 95-character charset", witness=wit)
        return None


def _o1_plain_path(n, cross=True):
    """no normal form: z3 alone (feasible for n <= 2); and the normal-form encoding against the plain one"""
    poss, text, wit = _sym_text(n)
    d = use_polymod("plain")
    r = _run_ccc(d, text, wit)
    if r is None:
        return "raised"
    e = spec_chars(spec_checksum(poss))
    check((len(r) == 8) and (r == e), "calc_core_checksum differs from Bitcoin Core's DescriptorChecksum", witness=wit)
    if cross:
        d = use_polymod("anf")
        ra = _run_ccc(d, text, wit)
        check(ra is not None and (ra == r), "normal-form encoding of calc_core_checksum differs from the plain encoding", witness=wit)
    return Out("ok", _positions_of(r))


def _o1_anf_path(n):
    poss, text, wit = _sym_text(n)
    d = use_polymod("anf")
    r = _run_ccc(d, text, wit)
    if r is None:
        return "raised"
    e = spec_chars(spec_checksum(poss, one=AInt.of(1)))
    check((len(r) == 8) and (r == e), "calc_core_checksum differs from Bitcoin Core's DescriptorChecksum", witness=wit)
    return Out("ok", _positions_of(r))


def _o1_uf_path(n):
    """compositional: calc_poly_mod is one uninterpreted function (O1-step shows it is Core's PolyMod); what is left of
    DescriptorChecksum is the start value, the symbol string, the threading of the state, the final xor and the output
    extraction.  The symbol string is compared with the closed form, one small solver query for all symbols."""
    poss, text, wit = _sym_text(n)
    d = use_polymod("uf")
    calls = []

    def recorder(c, val):
        out = _pm_uf(c, val)
        calls.append((c, val, out))
        return out
    d.calc_poly_mod = recorder
    r = _run_ccc(d, text, wit)
    if r is None:
        return "raised"
    syms = spec_symbols_closed(poss) + [0] * 8
    if not check(len(calls) == len(syms), f"calc_core_checksum makes {len(calls)} polymod steps for {n} characters, Bitcoin Core {len(syms)}",
                 witness=wit):
        return "steps"
    prev, thread, same = 1, [], []
    for (c_in, val, out), sym in zip(calls, syms):
        thread.append(c_in == prev)
        same.append(val == sym)
        prev = out
    check(s_and(*thread), "polymod state is not threaded from the start value 1 through consecutive steps", witness=wit)
    check(s_and(*same), "a symbol fed to calc_poly_mod differs from Bitcoin Core's (position mod 32 per character; base-3 group "
                        "number after every third character and after a trailing group)", witness=wit)
    c = prev ^ 1
    e = spec_chars([(c >> (5 * (7 - j))) & 31 for j in range(8)])
    check((len(r) == 8) and (r == e), "final xor / extraction of the 8 checksum characters differs from Bitcoin Core's", witness=wit)
    return Out("ok", _positions_of(r))


_O1 = {"plain": _o1_plain_path, "anf": _o1_anf_path, "uf": _o1_uf_path}


def ob_checksum(kind, lengths, cross=True):
    nat = loader.native("descriptor")
    runs = []
    for n in lengths:
        fn = (lambda: _o1_plain_path(n, cross)) if kind == "plain" else (lambda: _O1[kind](n))
        runs.append(sym_run(fn, timeout_ms=150000, expect_classes=["ok"],
                            gen_env=lambda rng, n=n: {f"p[{i}]": rng.randrange(95) for i in range(n)},
                            native=lambda env, n=n: [CORE_IN.find(ch) for ch in nat.calc_core_checksum(_text([env[f"p[{i}]"] for i in range(n)]))],
                            n_val=6))
    m = merge_runs(runs)
    m["sample"] = {"text": "n characters, each a symbolic position in the 95-character charset", "n": list(lengths), "encoding": kind}
    return m


def replay_checksum(w):
    from buidl import descriptor
    text = w["text"]
    want = ref_checksum(text)
    try:
        got = descriptor.calc_core_checksum(text)
    except Exception as ex:
        return {"violated": True, "observed": f"calc_core_checksum({text!r}) raised {ex!r}; Bitcoin Core gives {want}"}
    return {"violated": got != want, "observed": f"calc_core_checksum({text!r}) = {got}; Bitcoin Core DescriptorChecksum = {want}"}


# ------------------------------------------------------------------------------------------------ wallets (concrete scaffolding; key records of test_descriptor.py)

_K = {
    "A": ("c7d0648a", "m/48h/1h/0h/2h", "tpubDEpefcgzY6ZyEV2uF4xcW2z8bZ3DNeWx9h2BcwcX973BHrmkQxJhpAXoSWZeHkmkiTtnUjfERsTDTVCcifW6po3PFR1JRjUUTJHvPpDqJhr"),
    "B": ("12980eed", "m/48h/1h/0h/2h", "tpubDEkXGoQhYLFnYyzUGadtceUKbzVfXVorJEdo7c6VKJLHrULhpSVLC7fo89DDhjHmPvvNyrun2LTWH6FYmHh5VaQYPLEqLviVQKh45ufz8Ae"),
    "C": ("3a52b5cd", "m/48h/1h/0h/2h", "tpubDFdbVee2Zna6eL9TkYBZDJVJ3RxGYWgChksXBRgw6y6PU1jWPTXUqag3CBMd6VDwok1hn5HZGvg6ujsTLXykrS3DwbxqCzEvWoT49gRJy7s"),
    "D": ("f7d04090", "m/48h/1h/0h/2h", "tpubDF7FTuPECTePubPXNK73TYCzV3nRWaJnRwTXD28kh6Fz4LcaRzWwNtX153J7WeJFcQB2T6k9THd424Kmjs8Ps1FC1Xb81TXTxxbGZrLqQNp"),
    "I": ("aa917e75", "m/48h/1h/0h/2h", "tpubDEZRP2dRKoGRJnR9zn6EoLouYKbYyjFsxywgG7wMQwCDVkwNvoLhcX1rTQipYajmTAF82kJoKDiNCgD4wUPahACE7n1trMSm7QS8B3S1fdy"),
    "S": ("2553c4b8", "m/48h/1h/0h/2h", "tpubDEiNuxUt4pKjKk7khdv9jfcS92R1WQD6Z3dwjyMFrYj2iMrYbk3xB5kjg6kL4P8SoWsQHpd378RCTrM7fsw4chnJKhE2kfbfc4BCPkVh6g9"),
    # SLIP-132 Vpub with a long path (test_mixed_slip132_p2wsh_sortedmulti)
    "V": ("2553c4b8", "m/48h/1h/0h/2h/2046266013/1945465733/1801020214/1402692941",
          "Vpub5uMrp2GYpnHN8BkjvXpP71TuZ8BDqu61PPcwEKSzE9Mcuow727mUJNsDsKdzAiupHXea5F7ZxD9SaSQvbr1hvpNjrijJQ2J46VQjc5yEcm8"),
}
def _same_seed_records():
    """two key records derived from ONE seed (same master fingerprint, different account paths) -- a cosigner contributing two keys"""
    if "X" not in _K:
        hd = loader.native("hd")
        root = hd.HDPrivateKey.from_seed(b"verif same-fingerprint seed 0001", network="testnet")
        fp = root.fingerprint().hex()
        for tag, path in (("X", "m/48h/1h/0h/2h"), ("Y", "m/48h/1h/1h/2h")):
            _K[tag] = (fp, path, root.traverse(path).xpub())


WALLETS = {                       # name -> (m, record names, account index, sort_key_records, checksum pinned in the tests or None)
    "2of3-same-xfp": (2, "XYS", 0, True, None),
    "1of1": (1, "A", 0, True, None),
    "1of2": (1, "IS", 0, True, "t0v98kwu"),
    "2of3": (2, "ABD", 0, False, "0stzl64e"),       # the tests' texts list the records unsorted (parse keeps the order)
    "1of4": (1, "ABCD", 0, False, "tatkmj5q"),
    "slip132": (1, "IV", 0, False, "0lfdttke"),
    "2of3-acct7": (2, "SCA", 7, True, None),
}
_WCACHE = {}


def _records(names, acct):
    if "X" in names or "Y" in names:
        _same_seed_records()
    return [{"xfp": _K[k][0], "path": _K[k][1], "xpub_parent": _K[k][2], "account_index": acct} for k in names]


def wallet(name):
    """the native descriptor object for a wallet and what the library says about it (text, checksum, saved key records)"""
    if name not in _WCACHE:
        nat = loader.native("descriptor")
        m, names, acct, sort, known = WALLETS[name]
        obj = nat.P2WSHSortedMulti(m, _records(names, acct), sort_key_records=sort)
        _WCACHE[name] = {"pinned": known, "m": m, "text": obj.descriptor_text, "checksum": obj.checksum,
                         "records": [dict(r) for r in obj.key_records], "obj": obj, "supplied": _records(names, acct)}
    return _WCACHE[name]


# ------------------------------------------------------------------------------------------------ O2 single-character substitution

class _Inject:
    """alteration seam: stands in front of the real calc_core_checksum and replaces character i of the text __init__ generated"""

    def __init__(self, real, expect, i, handle):
        self.real, self.expect, self.i, self.handle = real, expect, i, handle

    def __call__(self, text):
        if not isinstance(text, str) or text != self.expect:
            raise core.Unsupported("alteration seam: __init__ generated a text other than the wallet's descriptor text")
        items = list(text)
        items[self.i] = self.handle
        return self.real(HStr(items))


def _construct(d, W, checksum):
    """the call P2WSHSortedMulti.parse makes once the text is split into key records"""
    return d.P2WSHSortedMulti(quorum_m=W["m"], key_records=[dict(r) for r in W["records"]], sort_key_records=False, checksum=checksum)


def _o2_body_path(wname, i):
    d = use_polymod("anf")
    W = wallet(wname)
    T, C = W["text"], W["checksum"]
    orig = CORE_IN.find(T[i])
    x = SI.var("x", 0, 94)
    wit = lambda env: {"wallet": wname, "where": "body", "i": i, "ch": CORE_IN[env["x"]], "text": T, "checksum": C}  # noqa
    d.calc_core_checksum = _Inject(_STATE["ccc"], T, i, DCh(x))
    try:
        try:
            _construct(d, W, C)
        except ValueError:
            check(x != orig, "the unaltered descriptor is rejected", witness=wit)
            return "rejected"
        check(x == orig, "a descriptor text altered in one body character passes the checksum comparison", witness=wit)
        return "accepted"
    finally:
        d.calc_core_checksum = _STATE["ccc"]


def _o2_cksum_path(wname, j):
    d = use_polymod("anf")
    W = wallet(wname)
    T, C = W["text"], W["checksum"]
    orig = CORE_IN.find(C[j])
    x = SI.var("x", 0, 94)
    wit = lambda env: {"wallet": wname, "where": "checksum", "i": j, "ch": CORE_IN[env["x"]], "text": T, "checksum": C}  # noqa
    items = list(C)
    items[j] = DCh(x)
    try:
        _construct(d, W, HStr(items))
    except ValueError:
        check(x != orig, "the unaltered descriptor is rejected", witness=wit)
        return "rejected"
    check(x == orig, "a checksum altered in one character is accepted", witness=wit)
    return "accepted"


def ob_substitution(wname, where, positions):
    fn = _o2_body_path if where == "body" else _o2_cksum_path
    runs = [sym_run(lambda: fn(wname, i), timeout_ms=60000, expect_classes=["rejected", "accepted"]) for i in positions]
    m = merge_runs(runs)
    W = wallet(wname)
    m["sample"] = {"wallet": wname, "descriptor": W["text"][:60] + "...#" + W["checksum"], "length": len(W["text"]), "altered": where,
                   "positions": [positions[0], positions[-1]], "replacement": "symbolic position in the 95-character charset"}
    return m


def _alter(s, i, ch):
    return s[:i] + ch + s[i + 1:]


def replay_substitution(w):
    """end to end on the native code: the altered record must not be accepted (by any layer)"""
    from buidl import descriptor
    T, C, i, ch = w["text"], w["checksum"], w["i"], w["ch"]
    if w["where"] == "body":
        if ch == T[i]:
            try:
                descriptor.P2WSHSortedMulti.parse(T + "#" + C)
                return {"violated": False, "observed": "unaltered record accepted"}
            except Exception as ex:
                return {"violated": True, "observed": f"the unaltered record {T[:40]}...#{C} is rejected: {ex!r}"}
        T2 = _alter(T, i, ch)
        try:
            blind = descriptor.calc_core_checksum(T2) == C
        except Exception:
            blind = False
        try:
            descriptor.P2WSHSortedMulti.parse(T2 + "#" + C)
        except Exception as ex:
            return {"violated": False, "observed": f"body[{i}] {T[i]!r}->{ch!r}: rejected ({type(ex).__name__}); checksum layer blind: {blind}"}
        return {"violated": True, "observed": f"body[{i}] {T[i]!r}->{ch!r} of {T[:40]}...#{C} is ACCEPTED by parse (checksum of the altered text "
                                              f"equals the supplied one: {blind})"}
    C2 = _alter(C, i, ch)
    nat = wallet(w["wallet"])
    try:
        descriptor.P2WSHSortedMulti(quorum_m=nat["m"], key_records=[dict(r) for r in nat["records"]], sort_key_records=False, checksum=C2)
    except ValueError as ex:
        return {"violated": ch == C[i], "observed": f"checksum {C2!r}: rejected ({str(ex)[:80]})"}
    return {"violated": ch != C[i], "observed": f"P2WSHSortedMulti(..., checksum={C2!r}) is ACCEPTED; the descriptor's checksum is {C!r}"}


# ------------------------------------------------------------------------------------------------ O3 concrete scaffolding (NOT solver-decided)

def _bech32_segwit(hrp, ver, prog):
    """independent BIP173 encoder (witness version 0)"""
    def polymod(values):
        gen = (0x3B6A57B2, 0x26508E6D, 0x1EA119FA, 0x3D4233DD, 0x2A1462B3)
        chk = 1
        for v in values:
            b = chk >> 25
            chk = ((chk & 0x1FFFFFF) << 5) ^ v
            for i in range(5):
                if (b >> i) & 1:
                    chk ^= gen[i]
        return chk
    acc, bits, data = 0, 0, [ver]
    for byte in prog:
        acc, bits = (acc << 8) | byte, bits + 8
        while bits >= 5:
            bits -= 5
            data.append((acc >> bits) & 31)
    if bits:
        data.append((acc << (5 - bits)) & 31)
    hx = [ord(c) >> 5 for c in hrp] + [0] + [ord(c) & 31 for c in hrp]
    pm = polymod(hx + data + [0] * 6) ^ 1
    return hrp + "1" + "".join(CORE_OUT[d] for d in data + [(pm >> 5 * (5 - i)) & 31 for i in range(6)])


def ref_address(m, secs, network):
    """P2WSH address of OP_m <keys in lexicographic order> OP_n OP_CHECKMULTISIG, built by hand"""
    keys = sorted(secs)
    script = bytes([0x50 + m]) + b"".join(bytes([len(k)]) + k for k in keys) + bytes([0x50 + len(keys), 0xAE])
    return _bech32_segwit("bc" if network == "mainnet" else "tb", 0, hashlib.sha256(script).digest())


def _wallet_facts(name):
    def f():
        nat = loader.native("descriptor")
        hd = loader.native("hd")
        W = wallet(name)
        obj = W["obj"]
        full = str(obj)
        notes = []
        # (a) text <-> object
        if full != W["text"] + "#" + W["checksum"] or ref_checksum(W["text"]) != W["checksum"]:
            return False, "str(descriptor) is not text#checksum with Core's checksum"
        if W["pinned"] is not None and W["pinned"] != W["checksum"]:
            return False, f"checksum {W['checksum']} differs from the value pinned in test_descriptor.py ({W['pinned']})"
        back = nat.P2WSHSortedMulti.parse(full)
        if str(back) != full or back.key_records != obj.key_records or back.quorum_m != obj.quorum_m or back.network != obj.network:
            return False, "parse(str(descriptor)) does not reproduce the descriptor"
        if str(nat.P2WSHSortedMulti.parse(W["text"])) != full:
            return False, "parse(text without checksum) does not regenerate the checksum"
        order = sorted(obj.key_records, key=lambda r: r["xpub_parent"]) if WALLETS[name][3] else obj.key_records
        layout = "wsh(sortedmulti(%d,%s))" % (W["m"], ",".join("[%s%s]%s/%d/*" % (r["xfp"], r["path"][1:], r["xpub_parent"], r["account_index"])
                                                             for r in order))
        if layout != W["text"] or any(r["xpub_parent"][:4] not in ("xpub", "tpub") for r in obj.key_records):
            return False, "descriptor text is not wsh(sortedmulti(m,[xfp/path]xpub/index/*,...)) over the (sorted) plain xpub/tpub key records"
        m, recs = W["m"], W["supplied"]
        # (b)-(d) addresses
        addrs = {}
        for change in (False, True):
            for idx in range(3):
                secs = []
                for r in obj.key_records:
                    k = hd.HDPublicKey.parse(r["xpub_parent"]).child(r["account_index"] + (1 if change else 0)).child(idx)
                    secs.append(k.sec())
                want = ref_address(m, secs, obj.network)
                got = obj.get_address(offset=idx, is_change=change)
                if got != want:
                    return False, f"address (change={change}, index={idx}) {got} != hand-built P2WSH {want}"
                addrs[(change, idx)] = got
        if len(set(addrs.values())) != len(addrs):
            return False, "a receive address coincides with a change address (or two indexes coincide)"
        # (c) supply-order independence
        nperm = 0
        if len(recs) <= 4:
            first = None
            for perm in itertools.permutations(recs):
                o2 = nat.P2WSHSortedMulti(m, [dict(r) for r in perm])
                nperm += 1
                first = first or str(o2)
                if str(o2) != first or (WALLETS[name][3] and first != full):
                    return False, f"descriptor text depends on the supply order {[r['xfp'] for r in perm]}"
                for (change, idx), a in addrs.items():
                    if idx < 2 and o2.get_address(offset=idx, is_change=change) != a:
                        return False, f"address depends on the supply order {[r['xfp'] for r in perm]}"
                o3 = nat.P2WSHSortedMulti(m, [dict(r) for r in perm], sort_key_records=False)
                if o3.get_address(0) != addrs[(False, 0)]:
                    return False, "address of the unsorted descriptor differs (child keys are not re-sorted)"
        # observation (not a failure, see META outside): upper-case fingerprint
        up = [dict(r) for r in recs]
        up[0]["xfp"] = up[0]["xfp"].upper()
        if up[0]["xfp"] != recs[0]["xfp"]:
            try:
                t = str(nat.P2WSHSortedMulti(m, up))
                try:
                    nat.P2WSHSortedMulti.parse(t)
                    notes.append("upper-case fingerprint round-trips")
                except ValueError:
                    notes.append("OBSERVED: __init__ accepts an upper-case hex fingerprint whose text parse() refuses")
            except ValueError:
                notes.append("upper-case fingerprint refused by __init__")
        return True, (f"NOT solver-decided: {len(W['text'])}-character descriptor round-trips; 6 addresses == hand-built P2WSH over sorted "
                      f"child keys, pairwise distinct (receive != change); {nperm} supply orders give the same text and addresses; " + "; ".join(notes))
    return f


# ------------------------------------------------------------------------------------------------ O3b branch selection (solver-decided)

class _KeyHandle:
    """stands for an extended public key: records the child indexes asked of it (BIP32 derivation itself is C08's subject)"""

    def __init__(self, tag, trail, log):
        self.tag, self.trail, self.log = tag, trail, log

    def child(self, index):
        return _KeyHandle(self.tag, self.trail + [index], self.log)

    def sec(self, compressed=True):
        self.log.append((self.tag, list(self.trail)))
        return bytes([2, self.tag]) + bytes(31)     # a distinct 33-byte handle per key record


def _branch_path(nrec, change, hist=False):
    d = mods()
    names = "ABD"[:nrec]
    accts = [SI.var(f"acct{i}", 0, (1 << 31) - 2) for i in range(nrec)]
    off = SI.var("offset", 0, (1 << 31) - 1)
    recs = [{"xfp": _K[k][0], "path": _K[k][1], "xpub_parent": _K[k][2], "account_index": 0} for i, k in enumerate(names)]
    def wit(env):
        w = {"names": names, "accts": [env[f"acct{i}"] for i in range(nrec)], "offset": env["offset"], "change": change}
        if hist:
            w["hist"] = {"accts": [env[f"h.acct{i}"] for i in range(nrec)], "offset": env["h.offset"]}
        return w
    obj = d.P2WSHSortedMulti(1, recs, sort_key_records=False)
    # the constructor renders the account indexes into the descriptor text (strings are concrete here); get_address reads only
    # key_records, so the state is completed directly: an arbitrary account index per record
    for i, kr in enumerate(obj.key_records):
        kr["account_index"] = accts[i]
    log = []
    tags = {kr["xpub_parent"]: i for i, kr in enumerate(obj.key_records)}
    real_parse = d.HDPublicKey.parse
    d.HDPublicKey.parse = staticmethod(lambda x, *a, **k: _KeyHandle(tags[x], [], log))
    real_int = None
    if hist:
        # history: addresses of ANOTHER wallet were derived earlier in the same process.  Its key records carry the same key
        # origins (fingerprint + path: nothing ties a fingerprint to an xpub, placeholder fingerprints are common) but other
        # xpubs, arbitrary account indexes and offset; whatever the library remembers must not reach the wallet under test
        other = [_K[k][2] for k in "CIS"[:nrec]]
        recs0 = [{"xfp": _K[k][0], "path": _K[k][1], "xpub_parent": other[i], "account_index": 0} for i, k in enumerate(names)]
        log0 = []
        d.HDPublicKey.parse = real_parse
        obj0 = d.P2WSHSortedMulti(1, recs0, sort_key_records=False)
        d.HDPublicKey.parse = staticmethod(lambda x, *a, **k: _KeyHandle(100 + other.index(x) if x in other else tags[x], [], log0 if x in other else log))
        for i, kr in enumerate(obj0.key_records):
            kr["account_index"] = SI.var(f"h.acct{i}", 0, (1 << 31) - 2)
        off0 = SI.var("h.offset", 0, (1 << 31) - 1)
        try:
            for ch in (False, True):
                obj0.get_address(offset=off0, is_change=ch)
        except core.Unsupported:
            raise
        except Exception:
            pass
        del log[:]
    try:
        # `assert type(offset) is int`: the shimmed type() answers int for a symbolic int
        try:
            obj.get_address(offset=off, is_change=change)
        except Exception as ex:
            check(False, f"get_address raised {type(ex).__name__} for a valid (account, offset)", witness=wit)
            return "raised"
    finally:
        d.HDPublicKey.parse = real_parse
    check(len(log) == nrec and sorted(t for t, _ in log) == list(range(nrec)), "get_address does not derive exactly one leaf key per key record", witness=wit)
    for tag, trail in log:
        want = accts[tag] + (1 if change else 0)
        check((len(trail) == 2) and s_and(trail[0] == want, trail[1] == off),
              "the leaf key of a record is not xpub/(account_index + is_change)/offset", witness=wit)
        check(s_not(trail[0] == (accts[tag] + (0 if change else 1))), "receive and change branches of a record coincide", witness=wit)
    return "ok"


def ob_branch(hist=False):
    runs = [sym_run(lambda: _branch_path(n, ch, hist), mode="int", max_violations=6) for n in ((1, 3) if not hist else (1, 2)) for ch in (False, True)]
    m = merge_runs(runs)
    m["sample"] = {"key records": "1 and 3, account_index of each symbolic in [0, 2^31-2]", "offset": "symbolic in [0, 2^31)", "branch": "receive / change",
                   "stub": "HDPublicKey.parse returns a handle that records the child indexes (BIP32 derivation is C08's subject)"}
    return m


def replay_branch(w):
    nat, hd = loader.native("descriptor"), loader.native("hd")
    names = w["names"]
    recs = [{"xfp": _K[k][0], "path": _K[k][1], "xpub_parent": _K[k][2], "account_index": a} for k, a in zip(names, w["accts"])]
    obj = nat.P2WSHSortedMulti(1, recs, sort_key_records=False)
    out = []
    if w.get("hist"):
        other = [_K[k][2] for k in "CIS"[:len(names)]]
        recs0 = [{"xfp": _K[k][0], "path": _K[k][1], "xpub_parent": other[i], "account_index": a} for i, (k, a) in enumerate(zip(names, w["hist"]["accts"]))]
        try:
            obj0 = nat.P2WSHSortedMulti(1, recs0, sort_key_records=False)
            for ch in (False, True):
                obj0.get_address(offset=w["hist"]["offset"], is_change=ch)
        except Exception:
            pass
    for off in sorted({w["offset"], 0, 1}):
        addr = {}
        for change in (False, True):
            secs = [hd.HDPublicKey.parse(r["xpub_parent"]).child(r["account_index"] + (1 if change else 0)).child(off).sec() for r in recs]
            want = ref_address(1, secs, obj.network)
            try:
                got = obj.get_address(offset=off, is_change=change)
            except Exception as ex:
                return {"violated": True, "observed": f"get_address(offset={off}, is_change={change}) raised {ex!r} (accounts {w['accts']})"}
            addr[change] = got
            if got != want:
                return {"violated": True, "observed": f"accounts {w['accts']}: address (change={change}, offset={off}) {got} != P2WSH over xpub/(account+{int(change)})/{off}: {want}"}
        if addr[False] == addr[True]:
            return {"violated": True, "observed": f"accounts {w['accts']}: receive and change address coincide at offset {off}"}
        out.append(off)
    return {"violated": False, "observed": f"addresses at offsets {out} are the hand-built ones"}


def ob_wallet(name):
    return conc_run(_wallet_facts(name), f"wallet {name}: round trip, addresses, supply order (concrete, NOT solver-decided)",
                    replay="wallet", witness={"wallet": name})


def replay_wallet(w):
    _WCACHE.clear()
    ok, detail = _wallet_facts(w["wallet"])()
    return {"violated": not ok, "observed": detail}


def ob_sweep(name, positions):
    """native P2WSHSortedMulti.parse on every single-character substitution at the given positions of text#checksum"""
    found = []

    def f():
        nat = loader.native("descriptor")
        W = wallet(name)
        full = W["text"] + "#" + W["checksum"]
        sep = len(W["text"])
        accepted, nsub, sepacc = [], 0, 0
        for i in positions:
            for ch in CORE_IN:
                if ch == full[i]:
                    continue
                nsub += 1
                try:
                    nat.P2WSHSortedMulti.parse(_alter(full, i, ch))
                except Exception:
                    continue
                if i == sep:
                    sepacc += 1
                else:
                    accepted.append((i, full[i], ch))
        if accepted:
            found.extend(accepted)
            return False, f"substitutions accepted by parse(): {accepted[:6]}"
        note = f"; OBSERVED: {sepacc} replacements of the '#' separator are accepted (checksum ignored)" if sepacc else ""
        return True, f"NOT solver-decided: {nsub} single-character substitutions at {len(positions)} positions of the {name} record refused by parse()" + note
    r = conc_run(f, f"native single-character sweep of the {name} record (concrete, NOT solver-decided)", replay="sweep",
                 witness={"wallet": name})
    for v in r["violations"]:
        v["witness"]["accepted"] = [[i, a, b] for i, a, b in found[:20]]
    return r


def replay_sweep(w):
    from buidl import descriptor
    _WCACHE.clear()
    W = wallet(w["wallet"])
    full = W["text"] + "#" + W["checksum"]
    bad = []
    for i, orig, ch in w["accepted"]:
        try:
            descriptor.P2WSHSortedMulti.parse(_alter(full, i, ch))
            bad.append((i, orig, ch))
        except Exception:
            pass
    return {"violated": bool(bad), "observed": f"parse() accepts the {w['wallet']} descriptor with a single character altered (position, original, new): {bad[:6]}"}


def _xpub_spans(text):
    """index ranges of the base58 extended keys inside a descriptor text"""
    spans, i = [], 0
    while True:
        a = text.find("]", i)
        if a < 0:
            return spans
        b = text.find("/", a)
        spans.append((a + 1, b))
        i = b


# ------------------------------------------------------------------------------------------------ registry

def _chunks(xs, k):
    xs = list(xs)
    return [tuple(xs[i:i + k]) for i in range(0, len(xs), k)]


def obligations(tier):
    q = tier == "quick"
    obs = [Ob("O0-tables", ob_tables)]
    obs.append(Ob("O1-step", ob_step, replay="step"))
    for n in (0, 1, 2):
        # the parity query normal form == plain costs as much as the main one at n = 2: thorough only (quick: n <= 1 and O1-step)
        obs.append(Ob("O1-checksum-plain", ob_checksum, {"kind": "plain", "lengths": (n,), "cross": (n < 2 or not q)}, replay="checksum",
                      budget_s=900))
    top = 24 if q else 64
    for g in _chunks(range(0, top + 1), 3 if q else 5):
        obs.append(Ob("O1-checksum-normalform", ob_checksum, {"kind": "anf", "lengths": g}, replay="checksum", budget_s=1500))
    for g in _chunks(range(0, 64 + 1), 13):
        obs.append(Ob("O1-checksum-composed", ob_checksum, {"kind": "uf", "lengths": g}, replay="checksum", budget_s=1500))
    names = ["1of1", "1of2", "2of3"] if q else ["1of1", "1of2", "2of3", "1of4", "slip132"]
    for name in names:
        L = len(wallet(name)["text"])
        for g in _chunks(range(L), 24):
            obs.append(Ob("O2-substitution", ob_substitution, {"wname": name, "where": "body", "positions": g}, replay="substitution",
                          budget_s=1500))
        obs.append(Ob("O2-substitution", ob_substitution, {"wname": name, "where": "checksum", "positions": tuple(range(8))},
                      replay="substitution"))
    obs.append(Ob("O3-branch-selection", ob_branch, replay="branch"))
    obs.append(Ob("O3-branch-selection-history", ob_branch, {"hist": True}, replay="branch", budget_s=900))
    for name in ("1of1", "1of2", "2of3", "slip132", "2of3-acct7", "2of3-same-xfp") if q else ("1of1", "1of2", "2of3", "1of4", "slip132", "2of3-acct7", "2of3-same-xfp"):
        obs.append(Ob("O3-wallet", ob_wallet, {"name": name}))
    for name in (("1of1",) if q else ("1of1", "1of2")):
        W = wallet(name)
        full = len(W["text"]) + 9
        inx = set()
        for a, b in _xpub_spans(W["text"]):
            inx |= set(range(a, b))
        pos = [i for i in range(full) if (not q) or i not in inx or i % 8 == 0]
        for g in _chunks(pos, 6 if q else 20):
            obs.append(Ob("O3-sweep", ob_sweep, {"name": name, "positions": g}, budget_s=1700))
    return obs
