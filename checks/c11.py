"""C11 — PSBT multisig review summary (DESIGN.md section 3, C11).

Concrete wallets (fixed seeds), symbolic amounts / scriptPubKey hash bytes / attacker-controlled metadata bytes.
The PSBT is written byte by byte by an independent BIP174 serialiser (spec_psbt) and pushed through the REAL
PSBT.parse -> PSBT.validate -> PSBT.describe_basic_multisig of /repo on the symx proxies.
The oracle (key derivation, scripts, commitments) is an independent BIP32 / secp256k1 / script-layout
implementation in this file (plain integers, hashlib) that never calls buidl.
"""
import hashlib
import hmac
import itertools

from symx import core, loader, shims
from symx.core import SI, SBytes, check, s_and, s_or, s_not, s_implies, assume, conc_value, concretize
from vlib.run import Ob, sym_run, merge_runs

PROPERTY = "C11"

META = {
    "bounds": {
        "quick": {
            "wallets": "P2SH multisig (cosigner xpubs at m/45'/0) and native P2WSH multisig (xpubs at m/48'/1'/0'/2'), 1-of-2 and 2-of-3, fixed seeds, "
                       "testnet; cosigner xpubs reach describe either as PSBT global xpub records or as the hdpubkey_map argument (O5: both at once)",
            "O1": "1..3 inputs x 1..3 outputs; every input (UTXO) amount and every output amount symbolic in [0, 21*10^14] with sum(inputs) > 0; "
                  "change output absent / at each position / two change outputs; payee outputs p2wpkh and p2pkh",
            "O2": "1 input, payee + candidate output whose scriptPubKey hash (20 or 32 bytes) is symbolic; candidate shapes (scriptPubKey kind, attached "
                  "field): (p2sh, redeem) (p2wsh, witness) (p2wsh, redeem) (p2sh, witness) (p2sh, redeem=p2wsh program + witness); attached script keys: "
                  "genuine change keys / all keys from one cosigner at consecutive indices / last cosigner's key replaced by a foreign signer's / foreign "
                  "key added / last key dropped; every derivation fingerprint of the candidate symbolic (4 bytes each) when the xpubs come through "
                  "hdpubkey_map; quorum opcodes OP_m and OP_n of the attached script symbolic in [0x50, 0x54]",
            "O3": "2 inputs, payee + genuine change; alterations (assumed different from the original): non-witness UTXO version / input sequence / both "
                  "output amounts / UTXO scriptPubKey hash / locktime, all symbolic at once; witness-UTXO scriptPubKey hash (32 symbolic bytes); input "
                  "and output attached script: first key 33 symbolic bytes, OP_m and OP_n in [0x50, 0x54]; one derivation fingerprint: 4 symbolic "
                  "bytes (hdpubkey_map) or {another cosigner's, a foreign signer's, zero} (global xpubs); one derivation path: branch in {0,1} x "
                  "index in 0..3; an input carrying BOTH the honest non-witness UTXO record and a witness-UTXO record (written after it) whose "
                  "amount is symbolic, or whose scriptPubKey hash is symbolic (20/32 bytes), assumed different from output prev_index of the "
                  "previous transaction (twin: consistent double records are summarised with the committed amount)",
            "O4": "honest PSBTs with 2..4 inputs of which two or three spend different outputs (indices 0..2, in either order, with or without a "
                  "stranger's output between them, to different receive addresses or to the same one) of ONE funding transaction, alone or next to "
                  "inputs with outpoints of their own / a second shared funding transaction; 1..3 outputs with or without change; every funding-output "
                  "amount and every output amount symbolic in [0, 21*10^14]; the members carry the same previous transaction (p2sh), the same concrete "
                  "txid with witness-UTXO records only, or previous transaction + witness-UTXO record (p2wsh); checked: total_input_sats, fee, "
                  "spend + change + fee, total_output_sats, per-input amount / output index, change_sats, is_change flags",
            "O5": "hdpubkey_map supplied for all n cosigners AND global xpub records in the PSBT: agreeing / the last cosigner's fingerprint reused "
                  "for a foreign xpub (instead of, after, before the genuine record) / extra record for an unknown fingerprint / record for an unknown "
                  "fingerprint instead of the last cosigner's / a foreign xpub (instead of the last cosigner's record, or extra) under a symbolic 4-byte "
                  "fingerprint; 1 input (script keys: genuine / last cosigner's key replaced by the foreign signer's, named by the last cosigner's or "
                  "by the foreign signer's own fingerprint), payee + candidate output with symbolic scriptPubKey hash (same three key cases; shapes: "
                  "the wallet's natural one and p2sh-p2wsh); candidate derivation fingerprints symbolic (4 bytes each) for the same-fingerprint "
                  "records; amounts symbolic",
            "O6": "history through module / class level state of the library: the reviewed PSBT (1 input, payee + candidate output with symbolic "
                  "scriptPubKey hash, natural script form, symbolic amounts; declared xpubs = the wallet's genuine ones, as global xpub records or "
                  "as hdpubkey_map) is parsed and described AFTER one other PSBT (symbolic amounts) was parsed and described in the same process: "
                  "a self-consistent PSBT of an impostor wallet whose embedded xpub records put foreign xpubs under the cosigners' root "
                  "fingerprints (replaced cosigners: the last one / all of them), with its change at the candidate's path or its input at the "
                  "reviewed input's path, or the wallet's own honest PSBT; reviewed (input keys, candidate keys) in {genuine, impostor's}^2; "
                  "plus describe called twice on the same object (candidate keys genuine / one foreign / all from one cosigner).  Demanded "
                  "as in O1 / O2 / O5: an input with a foreign key is never summarised, an output is labelled change only if its "
                  "scriptPubKey commits to one key per declared xpub, fee / spend / change arithmetic, the honest PSBT is summarised"},
        "thorough": {"same as quick, plus": "symbolic quorum opcodes also with symbolic fingerprints; UTXO / script alterations in both xpub modes; "
                                            "quorum opcodes in [0x4f, 0x58]; O5 with symbolic candidate fingerprints for every global-record case; "
                                            "O6 with every non-empty set of replaced cosigners, histories of two PSBTs (impostor then own, own "
                                            "then impostor, two different impostor wallets, the same impostor PSBT twice) and three describe calls"}},
    "outside": [
        "amounts of witness-UTXO-only inputs (native segwit) are not committed by anything the PSBT carries: the summary repeats whatever amount the "
        "PSBT states (inherent to BIP174 v0; noted, not flagged)",
        "the summary text, percentages and address strings (an output with symbolic scriptPubKey bytes gets an opaque address string)",
        "'at the stated path' is read as the path below the declared xpub: the library trims the metadata path by the xpub's depth and does not compare "
        "the trimmed prefix with the xpub's own origin",
        "a p2sh scriptPubKey that commits to the p2wsh program of the attached witness script (p2sh-p2wsh) counts as committing by hash",
        "symbolic public-key bytes inside derivation records, hardened / malformed / longer derivation paths, more than 3 cosigners, partial "
        "signatures, finalised inputs, p2sh-p2wsh inputs",
        "psbt_helper.create_multisig_psbt (its address / fee cross-checks compare concrete values parsed from hex strings)",
        "O5: a PSBT whose global xpub records disagree with the supplied hdpubkey_map but whose inputs and change keys all derive from the supplied "
        "xpubs may be summarised (the supplied map decides) or rejected: neither is flagged; only the agreeing case must be summarised",
        "which inputs share a funding transaction and at which output indices (O4), and which global xpub records exist (O5), are enumerated shapes",
        "O6: histories are enumerated shapes (which wallet's PSBT came before, at which paths) with concrete fingerprints and concrete candidate "
        "metadata; histories longer than 2 PSBTs, histories of PSBTs that are rejected half-way, an earlier describe with a different hdpubkey_map "
        "argument (a reviewer who serves two wallets whose root fingerprints collide), describe calls interleaved on two live objects, and state "
        "carried by other entry points (signing, finalising, psbt_helper) are not covered",
        "O6 judgement: 'the honest PSBT is summarised' (already O1's reading) is also demanded after a history; the property text only says what a "
        "summary must satisfy and what must be rejected, the unchanged code summarises every honest PSBT of the bound"],
    "stubs": ["sha256 / ripemd160 (hash160, hash256) are uninterpreted functions on symbolic input, real on concrete input",
              "concrete secp256k1 results (P + k*G, SEC decompression) are memoised across paths and across replays: the first call runs the real code",
              "base58check / bech32 encoding of a symbolic scriptPubKey returns an opaque non-empty string", "print() empty",
              "NamedHDPublicKey.is_ancestor: when the xpub record's fingerprint is symbolic the real method body runs with the key's (concrete) raw "
              "path lifted to the proxy byte type (bytes.startswith cannot take a proxy argument)"],
    "assumptions": ["collision-resistance instances (O3): an altered previous transaction does not hash256 to the original txid; an altered redeem / "
                    "witness script does not hash160 / sha256 to the original's digest",
                    "sum(inputs) > 0 (with a zero total the real code raises ZeroDivisionError while computing the fee percentage)",
                    "O6: every explored path starts from the library's module / class level state as it is right after import (symx.loader resets "
                    "it per path), i.e. the history of a path is exactly the calls the path makes; a history witness is replayed in an "
                    "interpreter of its own for the same reason",
                    "the independent BIP32 / secp256k1 / BIP174 / multisig-script layout written in checks/c11.py is the reference (the native library "
                    "derives the same keys: every honest PSBT built by it is accepted by the real parser)"],
}

MANIFEST = {"technique": "symbolic execution of the real PSBT.parse / PSBTIn.validate / PSBTOut.validate / PSBT.describe_basic_multisig on byte strings "
                         "written by an independent BIP174 serialiser, with symbolic amounts, scriptPubKey hash bytes, fingerprints and opcodes; hashes "
                         "as uninterpreted functions; z3 decides every path (LIA for the amount sums, bit-vectors elsewhere); the oracle re-derives "
                         "the cosigner keys with an independent BIP32 / secp256k1 implementation; history obligations run several parse + "
                         "describe calls on one path (library state reset per path) and replay each witness in an interpreter of its own"}

MAX_SATS = 21 * 10 ** 14

# ======================================================================================== independent spec: EC, BIP32

_P = 2 ** 256 - 2 ** 32 - 977
_N = 0xFFFFFFFFFFFFFFFFFFFFFFFFFFFFFFFEBAAEDCE6AF48A03BBFD25E8CD0364141
_G = (0x79BE667EF9DCBBAC55A06295CE870B07029BFCDB2DCE28D959F2815B16F81798,
      0x483ADA7726A3C4655DA4FBFC0E1108A8FD17B448A68554199C47D08FFB10D4B8)


def _ec_add(a, b):
    if a is None:
        return b
    if b is None:
        return a
    if a[0] == b[0]:
        if (a[1] + b[1]) % _P == 0:
            return None
        lam = 3 * a[0] * a[0] * pow(2 * a[1], -1, _P) % _P
    else:
        lam = (b[1] - a[1]) * pow(b[0] - a[0], -1, _P) % _P
    x = (lam * lam - a[0] - b[0]) % _P
    return (x, (lam * (a[0] - x) - a[1]) % _P)


def _ec_mul(k, pt):
    r = None
    while k:
        if k & 1:
            r = _ec_add(r, pt)
        pt = _ec_add(pt, pt)
        k >>= 1
    return r


def _sec(pt):
    return bytes([2 + (pt[1] & 1)]) + pt[0].to_bytes(32, "big")


def _unsec(sec):
    x = int.from_bytes(sec[1:], "big")
    y = pow(x * x * x + 7, (_P + 1) // 4, _P)
    if (y & 1) != (sec[0] & 1):
        y = _P - y
    return (x, y)


def _h160(b):
    return hashlib.new("ripemd160", hashlib.sha256(b).digest()).digest()


def _sha256(b):
    return hashlib.sha256(b).digest()


def _hash256(b):
    return hashlib.sha256(hashlib.sha256(b).digest()).digest()


class XPrv:
    def __init__(self, k, c, depth=0, pfp=b"\x00" * 4, num=0):
        self.k, self.c, self.depth, self.pfp, self.num = k, c, depth, pfp, num

    @classmethod
    def master(cls, seed):
        i = hmac.new(b"Bitcoin seed", seed, "sha512").digest()
        return cls(int.from_bytes(i[:32], "big"), i[32:])

    def sec(self):
        return _sec(_ec_mul(self.k, _G))

    def child(self, idx):
        if idx >= 0x80000000:
            data = b"\x00" + self.k.to_bytes(32, "big") + idx.to_bytes(4, "big")
        else:
            data = self.sec() + idx.to_bytes(4, "big")
        i = hmac.new(self.c, data, "sha512").digest()
        return XPrv((int.from_bytes(i[:32], "big") + self.k) % _N, i[32:], self.depth + 1, _h160(self.sec())[:4], idx)

    def pub(self):
        return XPub(self.sec(), self.c, self.depth, self.pfp, self.num)


_CKD = {}  # (parent sec, chain code, index) -> (child sec, chain code): every derivation is computed once per process


class XPub:
    def __init__(self, sec, c, depth, pfp, num):
        self.sec, self.c, self.depth, self.pfp, self.num = sec, c, depth, pfp, num

    def child(self, idx):
        assert idx < 0x80000000
        key = (self.sec, self.c, idx)
        r = _CKD.get(key)
        if r is None:
            i = hmac.new(self.c, self.sec + idx.to_bytes(4, "big"), "sha512").digest()
            pt = _ec_add(_ec_mul(int.from_bytes(i[:32], "big"), _G), _unsec(self.sec))
            r = _CKD[key] = (_sec(pt), i[32:])
        return XPub(r[0], r[1], self.depth + 1, _h160(self.sec)[:4], idx)

    def derive(self, idxs):
        x = self
        for i in idxs:
            x = x.child(i)
        return x

    def raw(self, version=b"\x04\x35\x87\xcf"):
        """78-byte BIP32 serialisation (tpub)"""
        return version + bytes([self.depth]) + self.pfp + self.num.to_bytes(4, "big") + self.c + self.sec


H = 0x80000000
BASE = {"p2sh": [45 + H, 0], "p2wsh": [48 + H, 1 + H, 0 + H, 2 + H]}
_WALLETS = {}


class Cosigner:
    def __init__(self, name, kind):
        seed = _sha256(b"C11 cosigner seed " + name.encode())
        m = XPrv.master(seed)
        self.name = name
        self.fp = _h160(m.sec())[:4]
        x = m
        for i in BASE[kind]:
            x = x.child(i)
        self.base = list(BASE[kind])
        self.xpub = x.pub()

    def key(self, rel):
        """compressed SEC of the key at xpub/rel (rel: list of unhardened indices)"""
        return self.xpub.derive(rel).sec


def wallet(kind, n):
    """n cosigners + one foreign signer for a wallet kind ('p2sh' legacy multisig, 'p2wsh' native segwit multisig)"""
    k = (kind, n)
    if k not in _WALLETS:
        _WALLETS[k] = ([Cosigner(f"{kind}-{i}", kind) for i in range(n)], Cosigner(f"{kind}-foreign", kind))
    return _WALLETS[k]


_IMPOSTORS = {}


def impostors(kind, n):
    """n foreign signers F_0..F_{n-1}; F_j is the one that stands in for cosigner j in an 'imp:<mask>' key case (F_{n-1} is the
    wallet's foreign signer)"""
    k = (kind, n)
    if k not in _IMPOSTORS:
        _IMPOSTORS[k] = [Cosigner(f"{kind}-foreign-{j}", kind) for j in range(n - 1)] + [wallet(kind, n)[1]]
    return _IMPOSTORS[k]


def imp_mask(case):
    """key / global-record case 'imp:<mask>': for every bit j of mask, cosigner j's key (xpub) is replaced by foreign signer F_j's
    while the metadata keeps naming cosigner j's root fingerprint and path.  None for any other case"""
    if isinstance(case, str) and case.startswith("imp:"):
        return int(case[4:])
    return None


def imp_signers(kind, n, mask):
    cos = wallet(kind, n)[0]
    return [impostors(kind, n)[j] if (mask >> j) & 1 else c for j, c in enumerate(cos)]


# ======================================================================================== independent spec: byte layouts


def le(x, n):
    if isinstance(x, int):
        return x.to_bytes(n, "little")
    return core.wrap(core.lift(x)).to_bytes(n, "little")


def varint(n):
    if n < 0xFD:
        return bytes([n])
    if n < 0x10000:
        return b"\xfd" + n.to_bytes(2, "little")
    return b"\xfe" + n.to_bytes(4, "little")


def varstr(b):
    return varint(len(b)) + b


def push(b):
    assert len(b) <= 75
    return bytes([len(b)]) + b


def byte_of(x):
    return bytes([x]) if isinstance(x, int) else SBytes([x])


def multisig_script(m_op, keys, n_op):
    """raw script  <m_op> <33-byte key>* <n_op> OP_CHECKMULTISIG; m_op / n_op are opcode bytes (0x51 = OP_1)"""
    out = byte_of(m_op)
    for k in keys:
        out = out + push(k)
    return out + byte_of(n_op) + b"\xae"


def spk_p2sh(h20):
    return b"\xa9\x14" + h20 + b"\x87"


def spk_p2wsh(h32):
    return b"\x00\x20" + h32


def hsha256(b):
    return shims._H("sha256", b).digest()


def hhash160(b):
    return shims._H("ripemd160", hsha256(b)).digest()


def hhash256(b):
    return hsha256(hsha256(b))


def spec_tx(version, ins, outs, locktime):
    """legacy serialisation; ins: (txid as displayed (big-endian), index, sequence) with empty scriptSig; outs: (amount, spk)"""
    out = le(version, 4) + varint(len(ins))
    for (txid, idx, seq) in ins:
        out = out + txid[::-1] + le(idx, 4) + b"\x00" + le(seq, 4)
    out = out + varint(len(outs))
    for (amt, spk) in outs:
        out = out + le(amt, 8) + varstr(spk)
    return out + le(locktime, 4)


def spec_txout(amt, spk):
    return le(amt, 8) + varstr(spk)


def kv(key, value):
    return varstr(key) + varstr(value)


def deriv_value(fp, path):
    out = fp
    for i in path:
        out = out + le(i, 4)
    return out


def spec_psbt(m):
    """BIP174 serialisation of the model m (see build_* below); values may be symbolic"""
    out = b"psbt\xff" + kv(b"\x00", m["tx"])
    for (xpub78, fp, path) in m.get("xpubs", []):
        out = out + kv(b"\x01" + xpub78, deriv_value(fp, path))
    out = out + b"\x00"
    for i in m["ins"]:
        if i.get("utxo_tx") is not None:
            out = out + kv(b"\x00", i["utxo_tx"])
        if i.get("utxo_out") is not None:
            out = out + kv(b"\x01", i["utxo_out"])
        if i.get("redeem") is not None:
            out = out + kv(b"\x04", i["redeem"])
        if i.get("witness") is not None:
            out = out + kv(b"\x05", i["witness"])
        for (sec, fp, path) in i.get("derivs", []):
            out = out + kv(b"\x06" + sec, deriv_value(fp, path))
        out = out + b"\x00"
    for o in m["outs"]:
        if o.get("redeem") is not None:
            out = out + kv(b"\x00", o["redeem"])
        if o.get("witness") is not None:
            out = out + kv(b"\x01", o["witness"])
        for (sec, fp, path) in o.get("derivs", []):
            out = out + kv(b"\x02" + sec, deriv_value(fp, path))
        out = out + b"\x00"
    return out


# ======================================================================================== scenarios
#
# A scenario `sc` (plain JSON) fixes the shape: wallet kind / quorum, how the cosigner xpubs reach describe ("xpubs": PSBT
# global xpub records; "map": the hdpubkey_map argument), the inputs (receive index) and the outputs.  `vals` carries the values
# the solver chooses (amounts, scriptPubKey hash bytes, fingerprints, opcodes, tampered fields); the same builder runs on
# symbolic values (harness) and on plain values (replay).

SEQ = 0xFFFFFFFD


def label32(s):
    return _sha256(b"C11 " + s.encode())


def genuine_script(cos, m, rel):
    keys = sorted(c.key(rel) for c in cos)
    return multisig_script(0x50 + m, keys, 0x50 + len(keys))


def out_keyset(sc, o):
    """(script keys in script order, derivation records [(sec, index of the cosigner the record names, path below the xpub)]) of a
    change candidate, per key case"""
    cos, foreign = wallet(sc["kind"], sc["n"])
    rel = o["rel"]
    kc = o["keys"]
    if kc == "genuine":
        named = [(c.key(rel), i, rel) for i, c in enumerate(cos)]
        keys = [k for k, _, _ in named]
    elif kc == "one":
        # every key from cosigner 0, consecutive indices
        named = [(cos[0].key([rel[0], rel[1] + j]), 0, [rel[0], rel[1] + j]) for j in range(sc["n"])]
        keys = [k for k, _, _ in named]
    elif kc == "foreign_replace":
        # the last cosigner's key is replaced by a foreign signer's key; the metadata names the last cosigner for it
        named = [(c.key(rel), i, rel) for i, c in enumerate(cos[:-1])] + [(foreign.key(rel), sc["n"] - 1, rel)]
        keys = [k for k, _, _ in named]
    elif kc == "foreign_named":
        # as foreign_replace, but the metadata names the foreign signer's own fingerprint ("F") for its key
        named = [(c.key(rel), i, rel) for i, c in enumerate(cos[:-1])] + [(foreign.key(rel), "F", rel)]
        keys = [k for k, _, _ in named]
    elif kc == "foreign_add":
        # genuine keys plus a foreign key in the script; only the genuine keys are named
        named = [(c.key(rel), i, rel) for i, c in enumerate(cos)]
        keys = [k for k, _, _ in named] + [foreign.key(rel)]
    elif kc == "two_of_one_aba":
        # n >= 3: two keys of cosigner 0 and one of cosigner 1, the last cosigner absent; the second index of cosigner 0 is
        # chosen so that the derivation records (sorted by key) alternate A, B, A -- a repeated cosigner that is NOT adjacent
        a0, b0 = cos[0].key(rel), cos[1].key(rel)
        pick = None
        for j in range(1, 200):
            aj = cos[0].key([rel[0], rel[1] + j])
            if (a0 < b0 < aj) or (aj < b0 < a0):
                pick = j
                break
        if pick is None:
            raise KeyError("no A,B,A ordering found")
        named = [(a0, 0, rel), (b0, 1, rel), (cos[0].key([rel[0], rel[1] + pick]), 0, [rel[0], rel[1] + pick])]
        named += [(c.key(rel), i, rel) for i, c in enumerate(cos) if i >= 3]
        keys = [k for k, _, _ in named]
    elif kc == "drop":
        named = [(c.key(rel), i, rel) for i, c in enumerate(cos[:-1])]
        keys = [k for k, _, _ in named]
    elif imp_mask(kc) is not None:
        # the keys of the cosigners in the mask come from foreign signers; the metadata names the cosigners
        named = [(s.key(rel), i, rel) for i, s in enumerate(imp_signers(sc["kind"], sc["n"], imp_mask(kc)))]
        keys = [k for k, _, _ in named]
    else:
        raise KeyError(kc)
    return sorted(keys), sorted(named, key=lambda t: t[0])


def in_signers(sc, inp):
    """[(owner of the script key, cosigner the derivation record names)] of an input, per key case (default: the wallet's own keys)"""
    cos, foreign = wallet(sc["kind"], sc["n"])
    kc = inp.get("keys", "genuine")
    if kc == "genuine":
        return [(c, c) for c in cos]
    if kc == "foreign_replace":
        # the last cosigner's key is a foreign signer's; the metadata names the last cosigner for it
        return [(c, c) for c in cos[:-1]] + [(foreign, cos[-1])]
    if kc == "foreign_named":
        # ... the metadata names the foreign signer's own fingerprint
        return [(c, c) for c in cos[:-1]] + [(foreign, foreign)]
    if imp_mask(kc) is not None:
        return list(zip(imp_signers(sc["kind"], sc["n"], imp_mask(kc)), cos))
    raise KeyError(kc)


def in_script(sc, inp):
    return multisig_script(0x50 + sc["m"], sorted(o.key(inp["rel"]) for o, _ in in_signers(sc, inp)), 0x50 + sc["n"])


def global_records(sc, vals):
    """PSBT_GLOBAL_XPUB records (78-byte xpub, fingerprint, origin path) in the order they are written, per sc["gx"]"""
    cos, foreign = wallet(sc["kind"], sc["n"])
    honest = [(c.xpub.raw(), c.fp, c.base) for c in cos]
    fx = foreign.xpub.raw()
    gx = sc.get("gx", "honest")
    if gx == "honest":
        return honest
    if gx == "swap_last":      # the last cosigner's fingerprint is reused for a foreign xpub
        return honest[:-1] + [(fx, cos[-1].fp, foreign.base)]
    if gx == "dup_fp":         # an extra record reuses the last cosigner's fingerprint for a foreign xpub (written last)
        return honest + [(fx, cos[-1].fp, foreign.base)]
    if gx == "dup_fp_first":   # ... written before the genuine record of that fingerprint
        return honest[:-1] + [(fx, cos[-1].fp, foreign.base), honest[-1]]
    if gx == "extra":          # an extra record for an unknown fingerprint
        return honest + [(fx, foreign.fp, foreign.base)]
    if gx == "unknown":        # the last cosigner's record is replaced by a record for an unknown fingerprint
        return honest[:-1] + [(fx, foreign.fp, foreign.base)]
    if gx == "swap_symfp":     # the last cosigner's record is replaced by a foreign xpub under a solver-chosen fingerprint
        return honest[:-1] + [(fx, vals["gx_fp"], foreign.base)]
    if gx == "extra_symfp":    # an extra foreign xpub record under a solver-chosen fingerprint
        return honest + [(fx, vals["gx_fp"], foreign.base)]
    if imp_mask(gx) is not None:   # the records of the cosigners in the mask carry foreign xpubs under the cosigners' fingerprints
        return [(s.xpub.raw(), c.fp, c.base) for s, c in zip(imp_signers(sc["kind"], sc["n"], imp_mask(gx)), cos)]
    raise KeyError(gx)


def funding_layout(sc, g):
    """outputs of the shared funding transaction g: position -> index of the PSBT input that spends it (None: an output that pays
    a stranger); one stranger output always follows the last spent one"""
    members = {}
    for i, inp in enumerate(sc["ins"]):
        if inp.get("fund") == g:
            assert inp["vout"] not in members, "two inputs spending the same outpoint"
            members[inp["vout"]] = i
    return [members.get(v) for v in range(max(members) + 2)]


def funding_tx(sc, vals, g):
    """the transaction that funded every input of group g: one output per member (its amount, the scriptPubKey of its script)"""
    mk_spk, hh = (spk_p2sh, _h160) if sc["kind"] == "p2sh" else (spk_p2wsh, _sha256)
    outs = []
    for v, i in enumerate(funding_layout(sc, g)):
        if i is None:
            outs.append((7000 + v, b"\x00\x14" + label32(f"stranger {g} {v}")[:20]))
        else:
            outs.append((vals["in_amt"][i], mk_spk(hh(in_script(sc, sc["ins"][i])))))
    return spec_tx(2, [(label32(f"funding {g}"), 1, 0xFFFFFFFE)], outs, 0)


def build(sc, vals):
    """returns (model for spec_psbt, info); info["outs"][k] is None for a payee output, else what the oracle needs about the candidate:
    scriptPubKey kind and hash, attached script, derivation records (fingerprint, path below the xpub)"""
    kind, m, n = sc["kind"], sc["m"], sc["n"]
    cos, foreign = wallet(kind, n)
    tam = vals.get("tamper", {})
    model = {"ins": [], "outs": []}
    if sc["mode"] == "xpubs":
        # the PSBT's own global xpub records are the declared cosigner xpubs (sc["gx"], default: the wallet's)
        model["xpubs"] = global_records(sc, vals)
    elif sc["mode"] == "pinned":
        # the reviewer passes hdpubkey_map for all n cosigners AND the PSBT carries global xpub records (possibly tampered)
        model["xpubs"] = global_records(sc, vals)
    tx_ins, tx_outs = [], []
    funds = {}
    for i, inp in enumerate(sc["ins"]):
        rel = inp["rel"]
        script = in_script(sc, inp)
        amt = vals["in_amt"][i]
        e = {}
        vout = 0
        if inp.get("fund") is not None:
            # several inputs spend different outputs of ONE funding transaction: every member carries the same previous transaction
            # (p2sh; p2wsh with sc["fund_tx"]) / the same concrete txid (p2wsh, witness UTXO only) and its own output index
            g, vout = inp["fund"], inp["vout"]
            if g not in funds:
                if kind == "p2sh" or sc.get("fund_tx"):
                    ftx = funding_tx(sc, vals, g)
                    funds[g] = (ftx, hhash256(ftx)[::-1])
                else:
                    funds[g] = (None, label32(f"fund {g}"))
            ftx, txid = funds[g]
            if ftx is not None:
                e["utxo_tx"] = ftx
            if kind == "p2sh":
                e["redeem"] = script
            else:
                e["utxo_out"] = spec_txout(amt, spk_p2wsh(_sha256(script)))
                e["witness"] = script
        elif kind == "p2sh":
            spk = spk_p2sh(_h160(script))
            f = {"version": 2, "seq": 0xFFFFFFFE, "amt0": amt, "h0": _h160(script), "amt1": 5000 + i, "lock": 0}
            prev = lambda f: spec_tx(f["version"], [(label32(f"funding {i}"), 1, f["seq"])],  # noqa
                                     [(f["amt0"], spk_p2sh(f["h0"])), (f["amt1"], b"\x00\x14" + label32("other")[:20])], f["lock"])
            honest_prev = prev(f)
            txid = hhash256(honest_prev)[::-1]
            e["utxo_tx"] = prev(tam["prev"][str(i)]) if str(i) in tam.get("prev", {}) else honest_prev
            e["redeem"] = script
        else:
            h = _sha256(script)
            if str(i) in tam.get("wutxo_h", {}):
                h = tam["wutxo_h"][str(i)]
            txid = label32(f"outpoint {i}")
            e["utxo_out"] = spec_txout(amt, spk_p2wsh(h))
            e["witness"] = script
        if inp.get("both"):
            # the input carries the non-witness UTXO (previous transaction, committed by the outpoint) AND a witness-UTXO record; the
            # honest form repeats output 0 of the previous transaction, the altered form changes its amount / scriptPubKey hash
            mk_spk = spk_p2sh if kind == "p2sh" else spk_p2wsh
            hh = _h160(script) if kind == "p2sh" else _sha256(script)
            honest_prev = spec_tx(2, [(label32(f"funding {i}"), 1, 0xFFFFFFFE)],
                                  [(amt, mk_spk(hh)), (5000 + i, b"\x00\x14" + label32("other")[:20])], 0)
            txid = hhash256(honest_prev)[::-1]
            t = tam.get("both_utxo", {}).get(str(i), {})
            e["utxo_tx"] = honest_prev
            e["utxo_out"] = spec_txout(t.get("amt", amt), mk_spk(t.get("h", hh)))
        if str(i) in tam.get("in_script", {}):
            t = tam["in_script"][str(i)]
            keys = sorted(c.key(rel) for c in cos)
            keys[t["pos"]] = t["key"]
            e["redeem" if kind == "p2sh" else "witness"] = multisig_script(t["m_op"], keys, t["n_op"])
        derivs = []
        for j, (owner, named) in enumerate(in_signers(sc, inp)):
            fp = tam.get("in_fp", {}).get(f"{i}.{j}", named.fp)
            r = tam.get("in_path", {}).get(f"{i}.{j}", rel)
            derivs.append((owner.key(rel), fp, named.base + list(r)))
        e["derivs"] = sorted(derivs, key=lambda d: d[0])
        model["ins"].append(e)
        tx_ins.append((txid, vout, SEQ))
    info = {"outs": []}
    for k, o in enumerate(sc["outs"]):
        amt = vals["out_amt"][k]
        e = {}
        if o["type"] == "spend":
            spk = (b"\x00\x14" + label32(f"payee {k}")[:20]) if o.get("spk", "p2wpkh") == "p2wpkh" else \
                (b"\x76\xa9\x14" + label32(f"payee {k}")[:20] + b"\x88\xac")
            info["outs"].append(None)
        else:
            keys, named = out_keyset(sc, o)
            t = tam.get("out_script", {}).get(str(k))
            m_op = vals.get("m_op", {}).get(str(k), 0x50 + m)
            n_op = vals.get("n_op", {}).get(str(k), 0x50 + len(keys) if o["keys"] != "foreign_add" else 0x50 + n)
            honest_script = multisig_script(m_op, keys, n_op)
            script = honest_script
            if t is not None:
                tk = list(keys)
                tk[t["pos"]] = t["key"]
                script = multisig_script(t["m_op"], tk, t["n_op"])
            attach = o["attach"]
            # the hash the scriptPubKey would carry if it committed to the attached (untampered) script
            if attach == "redeem":
                gen_h = hhash160(honest_script) if o["spk"] == "p2sh" else hsha256(honest_script)
            elif attach == "witness":
                gen_h = hsha256(honest_script) if o["spk"] == "p2wsh" else hhash160(honest_script)
            elif o["spk"] == "p2sh":
                gen_h = hhash160(b"\x00\x20" + hsha256(honest_script))
            else:
                gen_h = hsha256(honest_script)
            h = vals.get("h", {}).get(str(k), gen_h)
            spk = spk_p2sh(h) if o["spk"] == "p2sh" else spk_p2wsh(h)
            if attach in ("redeem",):
                e["redeem"] = script
            elif attach == "witness":
                e["witness"] = script
            else:
                e["redeem"] = b"\x00\x20" + hsha256(script)
                e["witness"] = script
            derivs = []
            dinfo = []
            for j, (sec, ci, rel) in enumerate(named):
                who = foreign if ci == "F" else cos[ci]
                fp = vals.get("ofp", {}).get(f"{k}.{j}", who.fp)
                fp = tam.get("out_fp", {}).get(f"{k}.{j}", fp)
                r = tam.get("out_path", {}).get(f"{k}.{j}", rel)
                derivs.append((sec, fp, who.base + list(r)))
                dinfo.append((fp, list(r)))
            e["derivs"] = derivs
            info["outs"].append({"h": h, "spk": o["spk"], "derivs": dinfo, "script": script, "attach": attach})
        model["outs"].append(e)
        tx_outs.append((amt, spk))
    model["tx"] = spec_tx(2, tx_ins, tx_outs, 0)
    return model, info


# ---- oracle

def commit_cond(sc, oi):
    """the scriptPubKey hash `h` of a change candidate commits to an m-of-n script (inputs' quorum) holding exactly one key
    per declared cosigner xpub, each derived at the path the output's metadata states for that cosigner.
    Works on symbolic h / fingerprints (returns SB) and on plain bytes (returns bool)."""
    cos, _ = wallet(sc["kind"], sc["n"])
    m, n = sc["m"], sc["n"]
    h, derivs = oi["h"], oi["derivs"]
    if len(derivs) != n:
        return False
    alts = []
    for sigma in itertools.permutations(range(n)):
        # deriv j names cosigner sigma[j]
        named = s_and(*[derivs[j][0] == cos[sigma[j]].fp for j in range(n)])
        if named is False:
            continue
        keys = [cos[sigma[j]].key(derivs[j][1]) for j in range(n)]
        if len(set(keys)) != n:
            continue
        hs = []
        for perm in itertools.permutations(keys):
            s = multisig_script(0x50 + m, list(perm), 0x50 + n)
            if oi["spk"] == "p2sh":
                hs.append(h == _h160(s))
                hs.append(h == _h160(b"\x00\x20" + _sha256(s)))
            else:
                hs.append(h == _sha256(s))
        alts.append(s_and(named, s_or(*hs)))
    return s_or(*alts) if alts else False


# ======================================================================================== the code under test, on proxies

_ADD = {}    # (x, y, k) -> (x, y) of P + k*G      (concrete EC results, memoised across paths; values are what the real code computed)
_SECP = {}   # compressed SEC -> (x, y)
_LOADED = {}


class SymAddr(str):
    """address text of a scriptPubKey whose hash bytes are symbolic: opaque, non-empty (addresses are outside the claim)"""


def _install_memo(P):
    """memoise P + k*G and SEC decompression of concrete values on the point class P (the first call runs the real code;
    later calls rebuild an equal, fresh point)"""
    if getattr(P, "_c11_memo", False):
        return
    orig_add, orig_parse_sec = P.__add__, P.parse_sec.__func__

    def add(self, other):
        if type(other) is int and self.x is not None:
            key = (self.x.num, self.y.num, other)
            r = _ADD.get(key)
            if r is None:
                p = orig_add(self, other)
                r = _ADD[key] = (p.x.num, p.y.num) if p.x is not None else ()
            return P(r[0], r[1]) if r else P(None, None)
        return orig_add(self, other)

    def parse_sec(cls, sec_bin):
        if type(sec_bin) is bytes and sec_bin[0] in (2, 3):
            r = _SECP.get(sec_bin)
            if r is None:
                p = orig_parse_sec(cls, sec_bin)
                r = _SECP[sec_bin] = (p.x.num, p.y.num)
            return cls(r[0], r[1])
        return orig_parse_sec(cls, sec_bin)

    P.__add__ = add
    P.parse_sec = classmethod(parse_sec)
    P._c11_memo = True


def sb():
    """sbuidl modules with (a) memoised concrete EC arithmetic and (b) an opaque address string for symbolic scriptPubKeys"""
    if _LOADED:
        return _LOADED
    ps = loader.load("psbt")
    sc = loader.load("script")
    hd = loader.load("hd")
    ecc = loader.load("ecc")
    _install_memo(ecc.S256Point)

    def wrap_addr(fn):
        def enc(raw, *a, **k):
            if isinstance(raw, SBytes):
                return SymAddr("<address of a symbolic scriptPubKey>")
            return fn(raw, *a, **k)
        return enc
    # bytes.startswith(<symbolic bytes>) cannot be shadowed on a real bytes object: when the xpub record's fingerprint is symbolic, the
    # REAL is_ancestor body runs on the key's raw path lifted to the proxy type (same bytes)
    orig_anc = ps.NamedHDPublicKey.is_ancestor

    def is_ancestor(self, named_pubkey):
        if isinstance(self.raw_path, SBytes) and isinstance(named_pubkey.raw_path, (bytes, bytearray)):
            class _Lifted:
                raw_path = SBytes(list(named_pubkey.raw_path))
            return orig_anc(self, _Lifted)
        return orig_anc(self, named_pubkey)
    ps.NamedHDPublicKey.is_ancestor = is_ancestor
    sc.encode_base58_checksum = wrap_addr(sc.encode_base58_checksum)
    sc.encode_bech32_checksum = wrap_addr(sc.encode_bech32_checksum)
    _LOADED.update(psbt=ps, script=sc, hd=hd, ecc=ecc)
    return _LOADED


class SymKeyDict(dict):
    """hdpubkey_map whose lookup with a symbolic fingerprint (hex handle) splits into one path per entry + one 'missing' path"""

    def __getitem__(self, k):
        if isinstance(k, core.SHex):
            for kk in self.keys():
                if k == kk:
                    return dict.__getitem__(self, kk)
            raise KeyError("<symbolic fingerprint>")
        return dict.__getitem__(self, k)


_DEBUG = bool(__import__("os").environ.get("C11_DEBUG"))
REJECTIONS = {"ValueError", "KeyError", "SuspiciousTransaction", "MixedNetwork", "SyntaxError", "OSError", "RuntimeError", "IndexError",
              "ZeroDivisionError"}


def run_real(sc, raw, mods=None, native=False, calls=1):
    """parse + describe with the real code (`calls` > 1: describe is called that many times on the SAME parsed object, the last
    result counts).  Returns ('ok', summary dict) or ('rejected', exception class name)"""
    cos, _ = wallet(sc["kind"], sc["n"])
    if native:
        from io import BytesIO
        from buidl.psbt import PSBT
        from buidl.hd import HDPublicKey
        from buidl import ecc as _necc
        if hasattr(_necc.S256Point, "parse_sec"):
            _install_memo(_necc.S256Point)
        mk = lambda c: HDPublicKey.raw_parse(BytesIO(c.xpub.raw()))  # noqa
        dct = dict
    else:
        m = sb()
        PSBT = m["psbt"].PSBT
        BytesIO = shims.BytesIOShim
        mk = lambda c: m["hd"].HDPublicKey.raw_parse(shims.BytesIOShim(c.xpub.raw()))  # noqa
        dct = SymKeyDict
    try:
        p = PSBT.parse(BytesIO(raw), network="testnet")
        for _ in range(calls):
            if sc["mode"] in ("map", "pinned"):
                d = p.describe_basic_multisig(hdpubkey_map=dct({c.fp.hex(): mk(c) for c in cos}))
            else:
                d = p.describe_basic_multisig()
    except (core.Unsupported, core.Inconclusive):
        raise
    except Exception as e:
        if type(e).__name__ not in REJECTIONS:
            # not an error the library raises on purpose: an engine artefact must never count as a rejection
            import traceback
            raise core.Inconclusive(f"unexpected {type(e).__name__}: {e} :: " + traceback.format_exc()[-700:])
        if _DEBUG:
            return "rejected", type(e).__name__ + ": " + str(e).replace("\n", " ")[:90]
        return "rejected", type(e).__name__
    return "ok", d


# ---- JSON <-> values

def to_json(v, env, memo=None):
    if memo is None:
        memo = {}
    if isinstance(v, dict):
        return {k: to_json(x, env, memo) for k, x in v.items()}
    if isinstance(v, (list, tuple)):
        return [to_json(x, env, memo) for x in v]
    v = conc_value(v, env, memo)
    if isinstance(v, (bytes, bytearray)):
        return "x:" + bytes(v).hex()
    return v


def from_json(v):
    if isinstance(v, dict):
        return {k: from_json(x) for k, x in v.items()}
    if isinstance(v, list):
        return [from_json(x) for x in v]
    if isinstance(v, str) and v.startswith("x:"):
        return bytes.fromhex(v[2:])
    return v


# ======================================================================================== obligations

def _amounts(n_in, n_out, prefix=""):
    return {"in_amt": [SI.var(f"{prefix}in{i}.sats", 0, MAX_SATS) for i in range(n_in)],
            "out_amt": [SI.var(f"{prefix}out{i}.sats", 0, MAX_SATS) for i in range(n_out)]}


def _witness(claim, sc, vals, extra=None):
    def w(env):
        memo = {}
        jv = to_json(vals, env, memo)
        out = {"claim": claim, "sc": sc, "vals": jv, "facts": facts(sc, from_json(jv))}
        if extra:
            out.update(extra)
        return out
    return w


def facts(sc, vals):
    """concrete facts about a witness (plain values) that known-findings `match` expressions refer to"""
    model, info = build(sc, vals)
    honest_vals = {"in_amt": vals["in_amt"], "out_amt": vals["out_amt"]}
    f = {"kind": sc["kind"], "quorum": f"{sc['m']}of{sc['n']}", "mode": sc["mode"], "outs": []}
    for k, (o, oi) in enumerate(zip(sc["outs"], info["outs"])):
        if oi is None:
            f["outs"].append(None)
            continue
        script = bytes(oi["script"])
        h = bytes(oi["h"])
        if oi["spk"] == "p2sh":
            direct = h == _h160(script)
            nested = h == _h160(b"\x00\x20" + _sha256(script))
        else:
            direct = h == _sha256(script)
            nested = False
        cos, _ = wallet(sc["kind"], sc["n"])
        fps = [bytes(d[0]) for d in oi["derivs"]]
        f["outs"].append({"spk": oi["spk"], "attach": oi["attach"], "keys": o["keys"],
                          "spk_commits_to_attached_script": bool(direct or (nested and oi["attach"] == "both")),
                          "distinct_fingerprints": len(set(fps)), "named": len(fps),
                          "m_op": script[0], "n_op": script[-2], "script_keys": (len(script) - 3) // 34,
                          "commit": bool(commit_cond(sc, oi))})
    if sc["mode"] == "pinned":
        f["global_xpub_records"] = sc.get("gx")
        f["input_keys"] = [inp.get("keys", "genuine") for inp in sc["ins"]]
    if any(inp.get("fund") is not None for inp in sc["ins"]):
        f["shared_funding"] = [[inp.get("fund"), inp.get("vout", 0)] for inp in sc["ins"]]
    if sc.get("history") or sc.get("calls", 1) > 1:
        f["history"] = [h.get("name") for h in sc.get("history", [])]
        f["describe_calls"] = sc.get("calls", 1)
        f["input_keys"] = [inp.get("keys", "genuine") for inp in sc["ins"]]
    f["tampered"] = sorted(vals.get("tamper", {}).keys())
    for i, t in vals.get("tamper", {}).get("both_utxo", {}).items():
        # which field of the additional witness-UTXO record differs from output 0 of the previous transaction
        hh = (_h160 if sc["kind"] == "p2sh" else _sha256)(bytes(genuine_script(wallet(sc["kind"], sc["n"])[0], sc["m"], sc["ins"][int(i)]["rel"])))
        f["both_utxo"] = {"input": int(i), "amount_differs": "amt" in t and t["amt"] != vals["in_amt"][int(i)],
                          "spk_differs": "h" in t and bytes(t["h"]) != hh,
                          "stated_sats": t.get("amt", vals["in_amt"][int(i)]), "prev_tx_sats": vals["in_amt"][int(i)]}
    f["honest_psbt_differs"] = bytes(spec_psbt(build(sc, honest_vals)[0])) != bytes(spec_psbt(model)) if vals.get("tamper") else False
    return f


# ---------------------------------------------------------------------------------------- O1 arithmetic

def _arith_path(sc):
    n_in, n_out = len(sc["ins"]), len(sc["outs"])
    vals = _amounts(n_in, n_out)
    tin = sum(vals["in_amt"])
    tout = sum(vals["out_amt"])
    # the percentage in the summary text divides by the input total; with a zero total the real code raises ZeroDivisionError
    assume(tin > 0)
    model, info = build(sc, vals)
    kind, d = run_real(sc, spec_psbt(model))
    w = _witness("arith", sc, vals)
    nchange = sum(1 for o in sc["outs"] if o["type"] == "change")
    if kind == "rejected":
        check(nchange > 1, f"honest PSBT with {nchange} change output(s) rejected ({d})", witness=w)
        return "rejected:" + d
    check(nchange <= 1, "two change outputs summarised", witness=w)
    check(d["tx_fee_sats"] == tin - tout, "tx_fee_sats != sum(inputs) - sum(outputs)", witness=w)
    check(d["spend_sats"] + d["change_sats"] + d["tx_fee_sats"] == tin, "spend + change + fee != sum(inputs)", witness=w)
    check(d["total_input_sats"] == tin, "total_input_sats != sum(inputs)", witness=w)
    for k, o in enumerate(sc["outs"]):
        check(d["outputs_desc"][k]["is_change"] == (o["type"] == "change"), "is_change flag of an honest output", witness=w)
    return "ok"


def _change_out(kind, j=0, keys="genuine"):
    return {"type": "change", "spk": kind, "attach": "redeem" if kind == "p2sh" else "witness", "keys": keys, "rel": [1, j]}


def arith_scenarios(kind, m, n, n_in, n_out):
    ins = [{"rel": [0, i]} for i in range(n_in)]
    spend = lambda k: {"type": "spend", "spk": "p2wpkh" if k % 2 == 0 else "p2pkh"}  # noqa
    places = [()] + [(k,) for k in range(n_out)] + ([(0, n_out - 1)] if n_out >= 2 else [])
    for pl in places:
        outs = [_change_out(kind, pl.index(k)) if k in pl else spend(k) for k in range(n_out)]
        yield {"kind": kind, "m": m, "n": n, "mode": "xpubs" if (n_in + n_out + len(pl)) % 2 == 0 else "map", "ins": ins, "outs": outs}


def _ob_arith(kind, m, n, n_ins, n_outs):
    runs = []
    for n_in in n_ins:
        for n_out in n_outs:
            for sc in arith_scenarios(kind, m, n, n_in, n_out):
                nchange = sum(1 for o in sc["outs"] if o["type"] == "change")
                # sums of amounts: linear integer arithmetic
                runs.append(sym_run(lambda: _arith_path(sc), mode="int",
                                    expect_classes=["ok"] if nchange <= 1 else ["rejected:SuspiciousTransaction"]))
    r = merge_runs(runs)
    r["sample"] = {"wallet": f"{kind} {m}-of-{n}", "inputs": list(n_ins), "outputs": list(n_outs), "amounts": f"all symbolic in [0, {MAX_SATS}]",
                   "change placements": "none, each position, two change outputs", "scenarios": len(runs)}
    return r


# ---------------------------------------------------------------------------------------- O2 change soundness

def _op_range():
    import os
    return (0x50, 0x54) if os.environ.get("VERIF_TIER", "quick") == "quick" else (0x4F, 0x58)


def _change_path(sc, sym_ops):
    o = sc["outs"][1]
    vals = _amounts(1, 2)
    assume(vals["in_amt"][0] > 0)
    if sym_ops:
        # quorum opcodes of the attached script: solver-chosen, one path per value (hash inputs stay concrete)
        lo, hi = _op_range()
        vals["m_op"] = {"1": concretize(SI.var("m_op", lo, hi))}
        vals["n_op"] = {"1": concretize(SI.var("n_op", lo, hi))}
    vals["h"] = {"1": SBytes.sym("spk_hash", 20 if o["spk"] == "p2sh" else 32)}
    if sc["mode"] == "map":
        _, named = out_keyset(sc, o)
        vals["ofp"] = {f"1.{j}": SBytes.sym(f"fp{j}", 4) for j in range(len(named))}
    model, info = build(sc, vals)
    kind, d = run_real(sc, spec_psbt(model))
    w = _witness("change", sc, vals)
    if kind == "rejected":
        check(True, "rejected")
        return "rejected:" + d
    check(d["outputs_desc"][0]["is_change"] is False, "payee output labelled change", witness=w)
    if d["outputs_desc"][1]["is_change"]:
        oi = info["outs"][1]
        commit = commit_cond(sc, oi)
        check(commit, "output labelled change, but its scriptPubKey does not commit to an m-of-n script with one key per cosigner xpub", witness=w)
        # the same claim restricted to scriptPubKeys that do commit to the attached script (isolates what the metadata checks let through)
        att = attached_commit(oi)
        check(s_implies(att, commit), "output labelled change and its scriptPubKey commits to the attached script, but that script is not an "
                                      "m-of-n script (inputs' quorum) with one key per cosigner xpub", witness=w)
        return "ok:change"
    check(True, "not labelled change")
    return "ok:spend"


def attached_commit(oi):
    """the scriptPubKey hash equals the hash of the script attached to the output (directly, or through the attached p2wsh redeem script)"""
    h, script = oi["h"], oi["script"]
    if oi["attach"] == "both" and oi["spk"] == "p2sh":
        return h == hhash160(b"\x00\x20" + hsha256(script))
    if oi["spk"] == "p2sh":
        return h == hhash160(script)
    return h == hsha256(script)


SHAPES = [("p2sh", "redeem"), ("p2wsh", "witness"), ("p2wsh", "redeem"), ("p2sh", "witness"), ("p2sh", "both"), ("p2wsh", "both")]


def _ob_change(kind, m, n, mode, keycases, sym_ops):
    runs = []
    for keys in keycases:
        if keys == "two_of_one_aba" and n < 3:
            continue
        for spk, attach in SHAPES:
            sc = {"kind": kind, "m": m, "n": n, "mode": mode, "ins": [{"rel": [0, 0]}],
                  "outs": [{"type": "spend"}, {"type": "change", "spk": spk, "attach": attach, "keys": keys, "rel": [1, 2]}]}
            natural = keys == "genuine" and (spk, attach) in (("p2sh", "redeem"), ("p2wsh", "witness"), ("p2sh", "both"))
            runs.append(sym_run(lambda: _change_path(sc, sym_ops), expect_classes=["ok:change"] if natural else None))
    keys = list(keycases)
    r = merge_runs(runs)
    r["sample"] = {"wallet": f"{kind} {m}-of-{n}", "xpubs via": mode, "candidate output": "scriptPubKey hash bytes symbolic; shapes " + str(SHAPES),
                   "attached script keys": keys, "quorum opcodes": "symbolic in [0x50,0x54]" if sym_ops else "as the inputs",
                   "derivation fingerprints": "symbolic" if mode == "map" else "as the key case states"}
    return r


# ---------------------------------------------------------------------------------------- O3 tamper rejection

def _sym_script_tamper(tag):
    """the first key (33 bytes) and both quorum opcodes of an attached script, solver-chosen"""
    return {"pos": 0, "key": SBytes.sym(f"{tag}.key", 33), "m_op": SI.var(f"{tag}.m_op", 0x50, 0x54), "n_op": SI.var(f"{tag}.n_op", 0x50, 0x54)}


def _tamper_path(sc, what):
    kind, n = sc["kind"], sc["n"]
    cos, foreign = wallet(kind, n)
    n_in, n_out = len(sc["ins"]), len(sc["outs"])
    vals = _amounts(n_in, n_out)
    assume(sum(vals["in_amt"]) > 0)
    honest_model, _ = build(sc, vals)
    tam = {}
    ck = next(k for k, o in enumerate(sc["outs"]) if o["type"] == "change")
    if what == "prev":
        f = {"version": SI.var("p.version", 0, 0xFFFFFFFF), "seq": SI.var("p.seq", 0, 0xFFFFFFFF), "amt0": SI.var("p.amt0", 0, MAX_SATS),
             "h0": SBytes.sym("p.h0", 20), "amt1": SI.var("p.amt1", 0, MAX_SATS), "lock": SI.var("p.lock", 0, 0xFFFFFFFF)}
        tam["prev"] = {"0": f}
    elif what == "wutxo":
        tam["wutxo_h"] = {"0": SBytes.sym("u.h", 32)}
    elif what == "both_utxo_amt":
        tam["both_utxo"] = {"0": {"amt": SI.var("w.amt", 0, MAX_SATS)}}
    elif what == "both_utxo_spk":
        tam["both_utxo"] = {"0": {"h": SBytes.sym("w.h", 20 if kind == "p2sh" else 32)}}
    elif what == "in_script":
        tam["in_script"] = {"0": _sym_script_tamper("s")}
    elif what == "out_script":
        tam["out_script"] = {str(ck): _sym_script_tamper("s")}
    elif what in ("in_fp", "out_fp"):
        j = concretize(SI.var("which_key", 0, n - 1))
        if sc["mode"] == "map":
            fp = SBytes.sym("fp", 4)
        else:
            alt = concretize(SI.var("which_fp", 0, n + 1))
            fp = (foreign.fp if alt == n else b"\x00" * 4 if alt == n + 1 else cos[alt].fp)
        tam[what] = {(f"0.{j}" if what == "in_fp" else f"{ck}.{j}"): fp}
    elif what in ("in_path", "out_path"):
        j = concretize(SI.var("which_key", 0, n - 1))
        br = concretize(SI.var("branch", 0, 1))
        ix = concretize(SI.var("index", 0, 3))
        tam[what] = {(f"0.{j}" if what == "in_path" else f"{ck}.{j}"): [br, ix]}
    vals["tamper"] = tam
    model, info = build(sc, vals)
    raw, honest_raw = spec_psbt(model), spec_psbt(honest_model)
    # the alteration is a real one
    assume(raw != honest_raw)
    # collision-resistance instances: an altered previous transaction / script does not hash to the original's digest
    if what == "prev":
        assume(hhash256(model["ins"][0]["utxo_tx"]) != hhash256(honest_model["ins"][0]["utxo_tx"]))
    if what in ("in_script", "out_script"):
        e, he = (model["ins"][0], honest_model["ins"][0]) if what == "in_script" else (model["outs"][ck], honest_model["outs"][ck])
        fld = "redeem" if "redeem" in e else "witness"
        assume(hhash160(e[fld]) != hhash160(he[fld]))
        assume(hsha256(e[fld]) != hsha256(he[fld]))
    res, d = run_real(sc, raw)
    if res == "rejected":
        check(True, "rejected")
        return "rejected:" + d
    check(False, f"PSBT with altered {what} summarised instead of rejected", witness=_witness("reject", sc, vals, {"what": what}))
    return "ok"


def _ob_tamper(kind, m, n, mode, whats):
    sc = {"kind": kind, "m": m, "n": n, "mode": mode, "ins": [{"rel": [0, 0]}, {"rel": [0, 1]}],
          "outs": [{"type": "spend"}, _change_out(kind, 1)]}
    runs = []
    for what in whats:
        scw = sc
        if what.startswith("both_utxo"):
            # input 0 carries both UTXO records
            scw = dict(sc, ins=[dict(sc["ins"][0], both=True)] + sc["ins"][1:])
        if what == "both_utxo_consistent":
            # twin: the two records agree -> the PSBT is summarised with the committed amount
            runs.append(sym_run(lambda: _arith_path(scw), mode="int", expect_classes=["ok"]))
            continue
        r = sym_run(lambda: _tamper_path(scw, what))
        if not any(k.startswith("'rejected") for k in r["classes"]) and not r["violations"]:
            r["inconclusive"].append(f"reachability twin: no rejecting path for {what}")
        runs.append(r)
    r = merge_runs(runs)
    r["sample"] = {"wallet": f"{kind} {m}-of-{n}", "xpubs via": mode, "altered": list(whats), "PSBT": "2 inputs, payee + genuine change"}
    return r


# ---------------------------------------------------------------------------------------- O4 inputs sharing a funding transaction

def _funding_path(sc):
    """honest PSBT in which two or more inputs spend different outputs of ONE previous transaction (each output pays the wallet):
    every input counts, with the amount of the output it spends"""
    n_in, n_out = len(sc["ins"]), len(sc["outs"])
    vals = _amounts(n_in, n_out)
    tin = sum(vals["in_amt"])
    tout = sum(vals["out_amt"])
    assume(tin > 0)
    model, info = build(sc, vals)
    kind, d = run_real(sc, spec_psbt(model))
    w = _witness("funding", sc, vals)
    if kind == "rejected":
        check(False, f"honest PSBT whose inputs share a funding transaction rejected ({d})", witness=w)
        return "rejected:" + d
    check(d["total_input_sats"] == tin, "total_input_sats != sum of the funding outputs spent", witness=w)
    check(d["tx_fee_sats"] == tin - tout, "tx_fee_sats != sum(inputs) - sum(outputs)", witness=w)
    check(d["spend_sats"] + d["change_sats"] + d["tx_fee_sats"] == tin, "spend + change + fee != sum(inputs)", witness=w)
    check(d["spend_sats"] + d["change_sats"] + d["tx_fee_sats"] == d["total_input_sats"], "spend + change + fee != total_input_sats", witness=w)
    check(d["total_output_sats"] == tout, "total_output_sats != sum(outputs)", witness=w)
    check(len(d["inputs_desc"]) == n_in, "number of inputs listed", witness=w)
    for i, inp in enumerate(sc["ins"]):
        check(d["inputs_desc"][i]["sats"] == vals["in_amt"][i], "amount listed for an input != amount of the funding output it spends", witness=w)
        check(d["inputs_desc"][i]["prev_idx"] == inp.get("vout", 0), "output index listed for an input", witness=w)
    change = [k for k, o in enumerate(sc["outs"]) if o["type"] == "change"]
    check(d["change_sats"] == sum(vals["out_amt"][k] for k in change), "change_sats != amount of the change output", witness=w)
    for k, o in enumerate(sc["outs"]):
        check(d["outputs_desc"][k]["is_change"] == (o["type"] == "change"), "is_change flag of an honest output", witness=w)
    return "ok"


def funding_scenarios(kind, m, n):
    """(inputs, outputs) shapes: which inputs share a funding transaction and which of its outputs they spend"""
    A = lambda v, j: {"rel": [0, j], "fund": "A", "vout": v}  # noqa
    B = lambda v, j: {"rel": [0, j], "fund": "B", "vout": v}  # noqa
    own = lambda j: {"rel": [0, j]}  # noqa   (an input with a funding transaction / outpoint of its own)
    in_shapes = [
        [A(0, 0), A(1, 1)],                  # outputs 0 and 1
        [A(1, 0), A(0, 1)],                  # ... listed in the other order
        [A(0, 0), A(2, 1)],                  # a stranger's output between them
        [A(0, 0), A(1, 0)],                  # both outputs pay the SAME receive address
        [A(0, 0), A(1, 1), A(2, 2)],         # three outputs of one transaction
        [A(0, 0), own(1), A(1, 2)],          # shared pair around an unrelated input
        [own(0), A(0, 1), A(1, 2)],
        [A(1, 0), A(0, 1), own(2)],
        [A(0, 0), B(0, 1), A(1, 2)],         # two funding transactions, one shared
        [A(0, 0), A(1, 1), B(0, 2), B(1, 3)],  # two shared pairs
    ]
    spend = lambda k: {"type": "spend", "spk": "p2wpkh" if k % 2 == 0 else "p2pkh"}  # noqa
    out_shapes = [[spend(0), _change_out(kind, 0)], [spend(0)], [_change_out(kind, 0), spend(1), spend(2)]]
    x = 0
    for ins in in_shapes:
        for fund_tx in ((True,) if kind == "p2sh" else (False, True)):
            outs = out_shapes[x % len(out_shapes)] if len(ins) > 2 else out_shapes[0]
            sc = {"kind": kind, "m": m, "n": n, "mode": "xpubs" if x % 2 == 0 else "map", "ins": ins, "outs": outs}
            if fund_tx and kind != "p2sh":
                sc["fund_tx"] = True
            x += 1
            yield sc


def _ob_funding(kind, m, n):
    runs = []
    for sc in funding_scenarios(kind, m, n):
        # on the current tree every query of this shape is decided in milliseconds; a tree that compares / hashes the (symbolic) txids
        # gets hard LIA queries over hash bytes: short timeout, and a few violation candidates per scenario are enough
        runs.append(sym_run(lambda: _funding_path(sc), mode="int", expect_classes=["ok"], timeout_ms=5000, max_violations=4))
    r = merge_runs(runs)
    r["sample"] = {"wallet": f"{kind} {m}-of-{n}", "inputs": "2..4, at least two of them spending different outputs (indices 0..2) of one funding "
                   "transaction; every spent output pays the wallet", "amounts": f"every funding-output amount and every output amount symbolic in [0, {MAX_SATS}]",
                   "UTXO records": "previous transaction (p2sh) / witness UTXO only, one concrete shared txid / previous transaction + witness UTXO (p2wsh)",
                   "scenarios": len(runs)}
    return r


# ---------------------------------------------------------------------------------------- O5 pinned xpubs (hdpubkey_map AND global xpub records)

def _pinned_path(sc):
    """the reviewer passes hdpubkey_map for all n cosigners; the PSBT also carries global xpub records (sc["gx"]: honest or tampered).
    The supplied map decides: inputs whose script holds a foreign key are never summarised, an output is labelled change only if
    its scriptPubKey commits to one key per PINNED cosigner xpub"""
    o = sc["outs"][1]
    vals = _amounts(1, 2)
    assume(vals["in_amt"][0] > 0)
    vals["h"] = {"1": SBytes.sym("spk_hash", 20 if o["spk"] == "p2sh" else 32)}
    if sc.get("sym_fp"):
        _, named = out_keyset(sc, o)
        vals["ofp"] = {f"1.{j}": SBytes.sym(f"fp{j}", 4) for j in range(len(named))}
    if sc["gx"].endswith("symfp"):
        vals["gx_fp"] = SBytes.sym("gx.fp", 4)
    model, info = build(sc, vals)
    kind, d = run_real(sc, spec_psbt(model))
    w = _witness("pinned", sc, vals)
    if kind == "rejected":
        check(True, "rejected")
        return "rejected:" + d
    foreign_in = [i for i, inp in enumerate(sc["ins"]) if inp.get("keys", "genuine") != "genuine"]
    check(not foreign_in, "an input whose script holds a key that no pinned cosigner xpub derives was summarised as the wallet's", witness=w)
    check(d["outputs_desc"][0]["is_change"] is False, "payee output labelled change", witness=w)
    check(d["total_input_sats"] == vals["in_amt"][0], "total_input_sats", witness=w)
    check(d["spend_sats"] + d["change_sats"] + d["tx_fee_sats"] == vals["in_amt"][0], "spend + change + fee != input", witness=w)
    if d["outputs_desc"][1]["is_change"]:
        check(commit_cond(sc, info["outs"][1]), "output labelled change, but its scriptPubKey does not commit to an m-of-n script with one key per "
                                                "cosigner xpub of the supplied hdpubkey_map", witness=w)
        return "ok:change"
    check(True, "not labelled change")
    return "ok:spend"


GX_GROUPS = {"agree": ("honest", "extra", "unknown"), "same_fp": ("swap_last", "dup_fp", "dup_fp_first"), "sym_fp": ("swap_symfp", "extra_symfp")}
# (input key case, candidate output key case)
PINNED_KEYS = [("genuine", "genuine"), ("genuine", "foreign_replace"), ("genuine", "foreign_named"), ("foreign_replace", "genuine"),
               ("foreign_replace", "foreign_replace"), ("foreign_named", "foreign_named")]


def _ob_pinned(kind, m, n, group, sym_fp):
    runs = []
    natural = ("p2sh", "redeem") if kind == "p2sh" else ("p2wsh", "witness")
    for gx in GX_GROUPS[group]:
        for kin, kout in PINNED_KEYS:
            for spk, attach in (natural, ("p2sh", "both")):
                if (sym_fp or group == "sym_fp") and (spk, attach) != natural:
                    continue
                sc = {"kind": kind, "m": m, "n": n, "mode": "pinned", "gx": gx, "ins": [{"rel": [0, 0], "keys": kin}],
                      "outs": [{"type": "spend"}, {"type": "change", "spk": spk, "attach": attach, "keys": kout, "rel": [1, 2]}]}
                if sym_fp:
                    sc["sym_fp"] = True
                # twin: with global records that leave every genuine key verifiable, the honest PSBT is summarised and its change labelled
                twin = kin == "genuine" and kout == "genuine" and gx not in ("swap_last", "dup_fp_first")
                # a tree that lets PSBT-supplied records into the lookup table hashes symbolic fingerprints (one path per value, without
                # end): bounded -- on the current tree a scenario has at most 23 paths
                # (wall budget: the first scenario of a worker also pays the cold EC derivations; 30 s was exceeded on a loaded machine)
                runs.append(sym_run(lambda: _pinned_path(sc), expect_classes=["ok:change"] if twin else None, max_paths=120, wall_s=150))
        if not sym_fp and gx == "honest":
            # twin: summary arithmetic of an honest 2-input PSBT with change, xpubs supplied both ways and agreeing
            sc = {"kind": kind, "m": m, "n": n, "mode": "pinned", "gx": gx, "ins": [{"rel": [0, 0]}, {"rel": [0, 1]}],
                  "outs": [{"type": "spend"}, _change_out(kind, 1)]}
            runs.append(sym_run(lambda: _arith_path(sc), mode="int", expect_classes=["ok"]))
    r = merge_runs(runs)
    r["sample"] = {"wallet": f"{kind} {m}-of-{n}", "xpubs via": "hdpubkey_map for all n cosigners AND PSBT global xpub records",
                   "global xpub records": list(GX_GROUPS[group]), "(input keys, candidate output keys)": PINNED_KEYS,
                   "candidate output": "scriptPubKey hash bytes symbolic", "derivation fingerprints of the candidate": "symbolic" if sym_fp else "as the key case states",
                   "scenarios": len(runs)}
    return r


# ---------------------------------------------------------------------------------------- O6 history: earlier describe calls in the process

def _natural(kind):
    return ("p2sh", "redeem") if kind == "p2sh" else ("p2wsh", "witness")


def _is_honest(sc):
    """inputs and candidate output are built from the declared wallet's own keys, in the wallet's natural script form"""
    o = sc["outs"][1]
    return o["keys"] == "genuine" and (o["spk"], o["attach"]) == _natural(sc["kind"]) and \
        all(inp.get("keys", "genuine") == "genuine" for inp in sc["ins"])


def _history_path(sc):
    """The PSBT under review (inputs: the wallet's own keys or some keys from foreign signers that the metadata attributes to the
    cosigners; payee + candidate output with a solver-chosen scriptPubKey hash) is described AFTER the PSBTs of sc["history"] were
    parsed and described in the same process (their outcomes are part of the outcome class, nothing is demanded of them), and / or
    describe is called sc["calls"] times on the same object.  What the property demands of the summary does not depend on what
    was described before: the same soundness conditions as O2 / O5 plus 'the honest PSBT is summarised' as in O1."""
    o = sc["outs"][1]
    vals = _amounts(1, 2)
    assume(vals["in_amt"][0] > 0)
    vals["h"] = {"1": SBytes.sym("spk_hash", 20 if o["spk"] == "p2sh" else 32)}
    vals["hist"] = []
    for t, hsc in enumerate(sc.get("history", [])):
        hv = _amounts(len(hsc["ins"]), len(hsc["outs"]), prefix=f"h{t}.")
        assume(sum(hv["in_amt"]) > 0)
        vals["hist"].append(hv)
    trail = []
    for hsc, hv in zip(sc.get("history", []), vals["hist"]):
        hres, hd = run_real(hsc, spec_psbt(build(hsc, hv)[0]))
        trail.append("ok" if hres == "ok" else "rejected")
    pre = ",".join(trail) + "|"
    model, info = build(sc, vals)
    kind, d = run_real(sc, spec_psbt(model), calls=sc.get("calls", 1))
    w = _witness("history", sc, vals)
    oi = info["outs"][1]
    if kind == "rejected":
        if _is_honest(sc):
            # the honest PSBT (scriptPubKey committing to the attached genuine script) is summarised whatever was described before
            check(s_not(attached_commit(oi)), f"honest PSBT rejected ({d}) after other PSBTs were described in the same process", witness=w)
        else:
            check(True, "rejected")
        return pre + "rejected:" + d
    foreign_in = [i for i, inp in enumerate(sc["ins"]) if inp.get("keys", "genuine") != "genuine"]
    check(not foreign_in, "an input whose script holds a key that no declared cosigner xpub derives was summarised as the wallet's", witness=w)
    check(d["outputs_desc"][0]["is_change"] is False, "payee output labelled change", witness=w)
    check(d["total_input_sats"] == vals["in_amt"][0], "total_input_sats", witness=w)
    check(d["tx_fee_sats"] == vals["in_amt"][0] - sum(vals["out_amt"]), "tx_fee_sats != sum(inputs) - sum(outputs)", witness=w)
    check(d["spend_sats"] + d["change_sats"] + d["tx_fee_sats"] == vals["in_amt"][0], "spend + change + fee != input", witness=w)
    if d["outputs_desc"][1]["is_change"]:
        check(commit_cond(sc, oi), "output labelled change, but its scriptPubKey does not commit to an m-of-n script with one key per declared "
                                   "cosigner xpub at the stated path", witness=w)
        check(d["change_sats"] == vals["out_amt"][1], "change_sats != amount of the change output", witness=w)
        return pre + "ok:change"
    check(d["change_sats"] == 0, "change_sats without a change output", witness=w)
    return pre + "ok:spend"


def history_scenarios(kind, m, n, mode, thorough=False):
    """(name, scenario): the PSBT under review declares the wallet's genuine xpubs (embedded records or hdpubkey_map); the history
    holds PSBTs of an impostor wallet (foreign xpubs embedded under the cosigners' fingerprints, self-consistent) and / or the
    wallet's own honest PSBTs"""
    spk, attach = _natural(kind)
    last, full = 1 << (n - 1), (1 << n) - 1
    R = [1, 2]
    cand = lambda keys, rel: {"type": "change", "spk": spk, "attach": attach, "keys": keys, "rel": rel}  # noqa

    def psbt(name, keys, in_rel, ch_rel):
        h = {"name": name, "kind": kind, "m": m, "n": n, "mode": "xpubs", "ins": [{"rel": in_rel, "keys": keys}],
             "outs": [{"type": "spend"}, cand(keys, ch_rel)]}
        if keys != "genuine":
            h["gx"] = keys
        return h

    for mask in (range(1, full + 1) if thorough else (last, full)):
        K = f"imp:{mask}"
        hists = [[psbt("impostor wallet, change at the candidate's path", K, [0, 3], R)],
                 [psbt("impostor wallet, input at the reviewed input's path", K, [0, 0], [1, 5])],
                 [psbt("own honest PSBT, change at the candidate's path", "genuine", [0, 3], R)]]
        if thorough:
            own = psbt("own honest PSBT, same paths", "genuine", [0, 0], R)
            imp = psbt("impostor wallet, same paths", K, [0, 0], R)
            other = psbt("another impostor wallet, same paths", f"imp:{full ^ mask or full}", [0, 0], R)
            hists += [[imp, own], [own, imp], [other, imp], [imp, imp]]
        for hist in hists:
            for kin, kout in (("genuine", "genuine"), ("genuine", K), (K, "genuine"), (K, K)):
                yield {"kind": kind, "m": m, "n": n, "mode": mode, "ins": [{"rel": [0, 0], "keys": kin}],
                       "outs": [{"type": "spend"}, cand(kout, R)], "history": hist}
    # describe called repeatedly on one object, no other history
    for calls in ((2,) if not thorough else (2, 3)):
        for kin, kout in (("genuine", "genuine"), ("genuine", f"imp:{last}"), (f"imp:{last}", "genuine"), ("genuine", "one")):
            yield {"kind": kind, "m": m, "n": n, "mode": mode, "ins": [{"rel": [0, 0], "keys": kin}],
                   "outs": [{"type": "spend"}, cand(kout, R)], "history": [], "calls": calls}


def _ob_history(kind, m, n, mode, thorough=False):
    runs = []
    for sc in history_scenarios(kind, m, n, mode, thorough):
        allok = ",".join("ok" for _ in sc["history"]) + "|"
        r = sym_run(lambda: _history_path(sc), expect_classes=[allok + "ok:change"] if _is_honest(sc) else None, max_paths=400, wall_s=240)
        # every PSBT of the history is self-consistent: the scenario is what it claims only if all of them were summarised
        if not any(k.startswith("'" + allok) for k in r["classes"]) and not r["violations"]:
            r["inconclusive"].append("reachability twin: no path on which every PSBT of the history was summarised")
        runs.append(r)
    r = merge_runs(runs)
    r["sample"] = {"wallet": f"{kind} {m}-of-{n}", "declared xpubs via": "PSBT global xpub records" if mode == "xpubs" else "hdpubkey_map",
                   "history": "1 earlier PSBT parsed + described in the same process" + (" (thorough: 2)" if thorough else "") +
                              ": impostor wallet (foreign xpubs under the cosigners' fingerprints) / the wallet's own; or describe called "
                              "repeatedly on the reviewed object",
                   "reviewed PSBT": "input and candidate keys genuine / from the impostor wallet; candidate scriptPubKey hash symbolic; all amounts "
                                    "(history included) symbolic", "scenarios": len(runs)}
    return r


# ---------------------------------------------------------------------------------------- replay (native code, concrete oracle)

def _rd_varint(b, p):
    v = b[p]
    if v < 0xFD:
        return v, p + 1
    w = {0xFD: 2, 0xFE: 4, 0xFF: 8}[v]
    return int.from_bytes(b[p + 1:p + 1 + w], "little"), p + 1 + w


def decode_tx_outs(raw):
    """[(amount, scriptPubKey)] of a legacy-serialised transaction (independent reader, plain bytes)"""
    p = 4
    n_in, p = _rd_varint(raw, p)
    for _ in range(n_in):
        p += 36
        ln, p = _rd_varint(raw, p)
        p += ln + 4
    n_out, p = _rd_varint(raw, p)
    outs = []
    for _ in range(n_out):
        amt = int.from_bytes(raw[p:p + 8], "little")
        ln, p = _rd_varint(raw, p + 8)
        outs.append((amt, raw[p:p + ln]))
        p += ln
    assert p + 4 == len(raw)
    return outs


def decode_outpoints(raw):
    """[(txid as displayed, output index)] of the inputs of a legacy-serialised transaction"""
    p = 4
    n_in, p = _rd_varint(raw, p)
    res = []
    for _ in range(n_in):
        res.append((raw[p:p + 32][::-1], int.from_bytes(raw[p + 32:p + 36], "little")))
        ln, p = _rd_varint(raw, p + 36)
        p += ln + 4
    return res


def script_keys(script):
    """the 33-byte pushes of a raw multisig script"""
    return [script[p + 1:p + 34] for p in range(1, len(script) - 2, 34)]


def utxo_facts(sc, model):
    """what the PSBT's own UTXO records say about every input, read back from the serialised fields (plain bytes): outpoint, the
    amount and scriptPubKey of the output it spends; plus the checks that make the scenario what it claims to be"""
    outpoints = decode_outpoints(bytes(model["tx"]))
    res, problems = [], []
    for i, (e, inp) in enumerate(zip(model["ins"], sc["ins"])):
        txid, vout = outpoints[i]
        amt = spk = None
        if e.get("utxo_tx") is not None:
            ftx = bytes(e["utxo_tx"])
            if _hash256(ftx)[::-1] != txid:
                problems.append(f"input {i}: previous transaction does not hash to the outpoint")
            amt, spk = decode_tx_outs(ftx)[vout]
        if e.get("utxo_out") is not None:
            o = bytes(e["utxo_out"])
            a2, s2 = int.from_bytes(o[:8], "little"), o[9:]
            if amt is not None and (a2, s2) != (amt, spk):
                problems.append(f"input {i}: the two UTXO records disagree")
            amt, spk = a2, s2
        script = bytes(e.get("redeem") or e.get("witness"))
        want = spk_p2sh(_h160(script)) if sc["kind"] == "p2sh" else spk_p2wsh(_sha256(script))
        if spk != want:
            problems.append(f"input {i}: the spent output does not pay the input's script")
        res.append({"txid": txid.hex(), "vout": vout, "sats": amt, "fund": inp.get("fund")})
    for g in {r["fund"] for r in res if r["fund"] is not None}:
        grp = [r for r in res if r["fund"] == g]
        if len({r["txid"] for r in grp}) != 1 or len({r["vout"] for r in grp}) != len(grp):
            problems.append(f"funding group {g}: members do not spend distinct outputs of one transaction")
        if any(r["txid"] == grp[0]["txid"] for r in res if r["fund"] != g):
            problems.append(f"funding group {g}: a non-member has the same txid")
    return res, problems


def _history_native(w, with_history=True):
    """runs in a FRESH interpreter (see _history_replay): the history of the witness, then the reviewed PSBT, on the native
    library; judged against the independent oracle on plain values"""
    sc = w["sc"]
    vals = from_json(w["vals"])
    cos, _ = wallet(sc["kind"], sc["n"])
    trail = []
    if with_history:
        for hsc, hv in zip(sc.get("history", []), vals.get("hist", [])):
            hres, hd = run_real(hsc, bytes(spec_psbt(build(hsc, hv)[0])), native=True)
            trail.append(f"{hsc.get('name')}: " + ("summarised" if hres == "ok" else f"rejected with {hd}"))
    model, info = build(sc, vals)
    calls = sc.get("calls", 1) if with_history else 1
    res, d = run_real(sc, bytes(spec_psbt(model)), native=True, calls=calls)
    oi = info["outs"][1]
    script, h = bytes(oi["script"]), bytes(oi["h"])
    commits_attached = h == (_h160(script) if oi["spk"] == "p2sh" else _sha256(script))
    bad = []
    if res == "rejected":
        if _is_honest(sc) and commits_attached and bool(commit_cond(sc, oi)):
            bad.append(f"the wallet's own honest PSBT is rejected with {d}")
        return {"violated": bool(bad), "verdict": f"rejected with {d}", "bad": bad, "trail": trail}
    for i, (e, inp) in enumerate(zip(model["ins"], sc["ins"])):
        have = script_keys(bytes(e.get("redeem") or e.get("witness")))
        want = sorted(c.key(inp["rel"]) for c in cos)
        if sorted(have) != want:
            strangers = [k.hex() for k in have if k not in want]
            bad.append(f"input {i} summarised as the wallet's although its script key(s) {strangers} derive from none of the declared "
                       f"cosigner xpubs at the stated path")
    for k, oinfo in enumerate(info["outs"]):
        if d["outputs_desc"][k]["is_change"] and (oinfo is None or not commit_cond(sc, oinfo)):
            bad.append(f"output {k} ({d['outputs_desc'][k]['addr']}, {d['outputs_desc'][k]['sats']} sats) is labelled change, but no m-of-n script "
                       f"with one key per declared cosigner xpub at the stated paths hashes to its scriptPubKey (hash "
                       f"{bytes(oinfo['h']).hex() if oinfo else None}, attached script keys "
                       f"{[x.hex()[:16] + '..' for x in script_keys(bytes(oinfo['script']))] if oinfo else None})")
    tin, tout = sum(vals["in_amt"]), sum(vals["out_amt"])
    want_change = sum(vals["out_amt"][k] for k in range(len(sc["outs"])) if d["outputs_desc"][k]["is_change"])
    if d["total_input_sats"] != tin or d["tx_fee_sats"] != tin - tout or d["spend_sats"] + d["change_sats"] + d["tx_fee_sats"] != tin \
            or d["change_sats"] != want_change:
        bad.append(f"summary arithmetic: inputs {d['total_input_sats']} (stated {tin}), fee {d['tx_fee_sats']}, spend {d['spend_sats']}, "
                   f"change {d['change_sats']}")
    return {"violated": bool(bad), "verdict": f"summarised: change {d['change_sats']} sats to {d['change_addr'] or '-'}, spend {d['spend_sats']}, "
                                               f"fee {d['tx_fee_sats']}", "bad": bad, "trail": trail}


def _history_child(w, with_history):
    """one witness in an interpreter of its own: replays of other witnesses in the same process would be history too"""
    import json
    import os
    import subprocess
    import sys
    verif = os.path.dirname(os.path.dirname(os.path.abspath(__file__)))
    code = ("import sys, json; sys.path[:0] = [%r, %r]; from checks import c11; a = json.load(sys.stdin); "
            "print('\\n' + json.dumps(c11._history_native(a['w'], a['with_history'])))" % (verif, loader.REPO))
    cp = subprocess.run([sys.executable, "-c", code], input=json.dumps({"w": w, "with_history": with_history}), capture_output=True,
                        text=True, timeout=1200)
    try:
        return json.loads(cp.stdout.strip().splitlines()[-1])
    except Exception:
        return {"violated": None, "error": "history replay subprocess failed: " + cp.stderr[-600:]}


def _history_replay(w):
    r = _history_child(w, True)
    if r.get("violated") is None:
        return r
    obs = f"after [{'; '.join(r['trail']) or 'no other PSBT'}]" + (f" and {w['sc'].get('calls')} describe calls on the same object"
                                                                     if w["sc"].get("calls", 1) > 1 else "") + f": {r['verdict']}"
    if r["violated"]:
        alone = _history_child(w, False)
        obs += " -- " + "; ".join(r["bad"]) + f" -- the same PSBT described once in a fresh process: {alone.get('verdict', alone.get('error'))}"
    return {"violated": r["violated"], "observed": obs}


def replay_summary(w):
    if w.get("claim") == "history":
        return _history_replay(w)
    sc = w["sc"]
    vals = from_json(w["vals"])
    model, info = build(sc, vals)
    raw = bytes(spec_psbt(model))
    res, d = run_real(sc, raw, native=True)
    claim = w["claim"]
    if claim == "funding":
        # independent computation: the input total is the sum of the funding outputs that the outpoints name, read from the PSBT bytes
        ins, problems = utxo_facts(sc, model)
        if problems or [r["sats"] for r in ins] != list(vals["in_amt"]):
            return {"violated": None, "error": "scenario not rebuilt faithfully: " + "; ".join(problems or ["amounts"])}
        tin = sum(r["sats"] for r in ins)
        tout = sum(a for a, _ in decode_tx_outs(bytes(model["tx"])))
        where = ", ".join(f"{r['txid'][:12]}..:{r['vout']}={r['sats']}" for r in ins)
        if res == "rejected":
            return {"violated": True, "observed": f"honest PSBT spending {where} rejected with {d}"}
        bad = []
        if d["total_input_sats"] != tin:
            bad.append(f"total_input_sats {d['total_input_sats']} != {tin}")
        if d["tx_fee_sats"] != tin - tout:
            bad.append(f"tx_fee_sats {d['tx_fee_sats']} != {tin} - {tout}")
        if d["spend_sats"] + d["change_sats"] + d["tx_fee_sats"] != tin:
            bad.append(f"spend {d['spend_sats']} + change {d['change_sats']} + fee {d['tx_fee_sats']} != inputs {tin}")
        if d["spend_sats"] + d["change_sats"] + d["tx_fee_sats"] != d["total_input_sats"]:
            bad.append(f"spend {d['spend_sats']} + change {d['change_sats']} + fee {d['tx_fee_sats']} != total_input_sats {d['total_input_sats']}")
        if d["total_output_sats"] != tout:
            bad.append(f"total_output_sats {d['total_output_sats']} != {tout}")
        listed = [(x["prev_txhash"], x["prev_idx"], x["sats"]) for x in d["inputs_desc"]]
        if listed != [(r["txid"], r["vout"], r["sats"]) for r in ins]:
            bad.append(f"inputs listed as {listed}")
        change = [k for k, o in enumerate(sc["outs"]) if o["type"] == "change"]
        if d["change_sats"] != sum(vals["out_amt"][k] for k in change):
            bad.append(f"change_sats {d['change_sats']}")
        for k, o in enumerate(sc["outs"]):
            if d["outputs_desc"][k]["is_change"] != (o["type"] == "change"):
                bad.append(f"output {k} is_change={d['outputs_desc'][k]['is_change']}")
        return {"violated": bool(bad), "observed": (f"inputs {where}: " + "; ".join(bad)) if bad else "summary arithmetic agrees"}
    if claim == "pinned":
        if res == "rejected":
            return {"violated": False, "observed": f"rejected with {d}"}
        cos, _ = wallet(sc["kind"], sc["n"])
        bad = []
        for i, (e, inp) in enumerate(zip(model["ins"], sc["ins"])):
            # the wallet the reviewer pinned owns exactly the m-of-n script over one key per supplied xpub at the stated path
            have = script_keys(bytes(e.get("redeem") or e.get("witness")))
            want = sorted(c.key(inp["rel"]) for c in cos)
            if sorted(have) != want:
                strangers = [k.hex() for k in have if k not in want]
                bad.append(f"input {i} summarised as the wallet's although its script key(s) {strangers} derive from none of the xpubs in the "
                           f"supplied hdpubkey_map (global xpub records: {sc['gx']})")
        for k, oi in enumerate(info["outs"]):
            if d["outputs_desc"][k]["is_change"] and (oi is None or not commit_cond(sc, oi)):
                bad.append(f"output {k} ({d['outputs_desc'][k]['addr']}, {d['outputs_desc'][k]['sats']} sats) is labelled change, but no m-of-n script "
                           f"with one key per xpub of the supplied hdpubkey_map at the stated paths hashes to its scriptPubKey "
                           f"(hash {bytes(oi['h']).hex() if oi else None}; global xpub records: {sc['gx']})")
        tin = sum(vals["in_amt"])
        if d["total_input_sats"] != tin or d["spend_sats"] + d["change_sats"] + d["tx_fee_sats"] != tin:
            bad.append("summary arithmetic")
        return {"violated": bool(bad), "observed": "; ".join(bad) or "the supplied hdpubkey_map decided"}
    if claim == "arith":
        tin, tout = sum(vals["in_amt"]), sum(vals["out_amt"])
        nchange = sum(1 for o in sc["outs"] if o["type"] == "change")
        if res == "rejected":
            return {"violated": nchange <= 1, "observed": f"honest PSBT rejected with {d}"}
        bad = []
        if nchange > 1:
            bad.append("two change outputs summarised")
        if d["tx_fee_sats"] != tin - tout:
            bad.append(f"tx_fee_sats {d['tx_fee_sats']} != {tin} - {tout}")
        if d["spend_sats"] + d["change_sats"] + d["tx_fee_sats"] != tin:
            bad.append(f"spend {d['spend_sats']} + change {d['change_sats']} + fee {d['tx_fee_sats']} != inputs {tin}")
        if d["total_input_sats"] != tin:
            bad.append(f"total_input_sats {d['total_input_sats']} != {tin}")
        for k, o in enumerate(sc["outs"]):
            if d["outputs_desc"][k]["is_change"] != (o["type"] == "change"):
                bad.append(f"output {k} is_change={d['outputs_desc'][k]['is_change']}")
        return {"violated": bool(bad), "observed": "; ".join(bad) or "summary arithmetic agrees"}
    if claim == "change":
        if res == "rejected":
            return {"violated": False, "observed": f"rejected with {d}"}
        bad = []
        for k, oi in enumerate(info["outs"]):
            flag = d["outputs_desc"][k]["is_change"]
            if flag and (oi is None or not commit_cond(sc, oi)):
                o = sc["outs"][k]
                bad.append(f"output {k} ({d['outputs_desc'][k]['addr']}, {d['outputs_desc'][k]['sats']} sats) is labelled change; "
                           f"wallet {sc['kind']} {sc['m']}-of-{sc['n']}, scriptPubKey {o.get('spk')} hash {bytes(oi['h']).hex() if oi else None}, "
                           f"attached {o.get('attach')} script {bytes(oi['script']).hex() if oi else None}, "
                           f"derivations {[(bytes(fp).hex(), r) for fp, r in oi['derivs']] if oi else None}: "
                           "no m-of-n script with one key per cosigner xpub at the stated paths hashes to this scriptPubKey")
        return {"violated": bool(bad), "observed": "; ".join(bad) or "change labels are sound"}
    if claim == "reject":
        hv = {"in_amt": vals["in_amt"], "out_amt": vals["out_amt"]}
        honest = bytes(spec_psbt(build(sc, hv)[0]))
        if honest == raw:
            return {"violated": False, "observed": "witness does not alter the PSBT"}
        hres, _ = run_real(sc, honest, native=True)
        if res == "rejected":
            return {"violated": False, "observed": f"rejected with {d}"}
        return {"violated": hres == "ok", "observed": f"PSBT with altered {w.get('what')} ({w['vals'].get('tamper')}) was summarised: fee {d['tx_fee_sats']}, "
                                                      f"change {d['change_sats']} to {d['change_addr']}"}
    return {"violated": None, "error": "unknown claim"}


# ======================================================================================== registry

def _signature(v):
    w = v.get("witness") or {}
    f = w.get("facts") or {}
    outs = []
    for o in f.get("outs", []):
        if o:
            outs.append((o["spk"], o["attach"], o["keys"], o["spk_commits_to_attached_script"], o["distinct_fingerprints"] < o["named"],
                         o["script_keys"] == o["n_op"] - 80, o["m_op"], o["commit"]))
    return repr((v.get("label"), w.get("what"), outs, f.get("history"), f.get("describe_calls"), f.get("input_keys") if f.get("history") is not None else None))


def _representatives(r, per=2):
    """every path is explored; of the violation candidates with the same shape (label + facts) only `per` are kept for replay"""
    seen = {}
    kept = []
    for v in r["violations"]:
        k = _signature(v)
        seen[k] = seen.get(k, 0) + 1
        if seen[k] <= per:
            kept.append(v)
    r["candidate_shapes"] = {k: n for k, n in list(seen.items())[:20]}
    total = len(r["violations"])
    r["violations"] = kept
    if r.get("sample") is not None:
        r["sample"]["violation candidates"] = f"{total} found, {len(kept)} representatives replayed"
    return r


def ob_arith(**k):
    return _representatives(_ob_arith(**k))


def ob_change(**k):
    return _representatives(_ob_change(**k))


def ob_tamper(**k):
    return _representatives(_ob_tamper(**k))


def ob_funding(**k):
    return _representatives(_ob_funding(**k))


def ob_pinned(**k):
    return _representatives(_ob_pinned(**k))


def ob_history(**k):
    return _representatives(_ob_history(**k), per=1)


WALLETS = [("p2sh", 1, 2), ("p2sh", 2, 3), ("p2wsh", 1, 2), ("p2wsh", 2, 3)]
KEYCASES = ["genuine", "one", "two_of_one_aba", "foreign_replace", "foreign_add", "drop"]


def obligations(tier):
    q = tier == "quick"
    # the spec wallets are derived once here (the runner forks its workers after this call)
    for kind, m, n in WALLETS:
        wallet(kind, n)
        impostors(kind, n)
    obs = []
    for kind, m, n in WALLETS:
        obs.append(Ob("O1-arith", ob_arith, {"kind": kind, "m": m, "n": n, "n_ins": (1, 2, 3), "n_outs": (1, 2, 3)}, replay="summary", budget_s=1200))
    for kind, m, n in WALLETS:
        for mode, sym_ops in (("xpubs", False), ("map", False), ("xpubs", True)) + ((("map", True),) if not q else ()):
            obs.append(Ob("O2-change", ob_change, {"kind": kind, "m": m, "n": n, "mode": mode, "keycases": tuple(KEYCASES), "sym_ops": sym_ops},
                          replay="summary", budget_s=1200))
    for kind, m, n in WALLETS:
        for mode in ("xpubs", "map"):
            whats = (["prev"] if kind == "p2sh" else ["wutxo"]) + ["in_script", "out_script", "in_fp", "out_fp", "in_path", "out_path"]
            if mode == "map" and q:
                # alterations of UTXO / scripts are rejected by PSBT.parse before the xpub source matters; both modes in the thorough tier
                whats = whats[3:]
            else:
                whats = whats + ["both_utxo_consistent", "both_utxo_amt", "both_utxo_spk"]
            obs.append(Ob("O3-tamper", ob_tamper, {"kind": kind, "m": m, "n": n, "mode": mode, "whats": tuple(whats)}, replay="summary", budget_s=1200))
    for kind, m, n in WALLETS:
        obs.append(Ob("O4-shared-funding", ob_funding, {"kind": kind, "m": m, "n": n}, replay="summary", budget_s=1200))
    for kind, m, n in WALLETS:
        for group, sym_fp in (("agree", False), ("same_fp", False), ("sym_fp", False), ("same_fp", True)) + ((("agree", True), ("sym_fp", True)) if not q else ()):
            obs.append(Ob("O5-pinned-xpubs", ob_pinned, {"kind": kind, "m": m, "n": n, "group": group, "sym_fp": sym_fp}, replay="summary", budget_s=1200))
    for kind, m, n in WALLETS:
        for mode in ("xpubs", "map"):
            obs.append(Ob("O6-history", ob_history, {"kind": kind, "m": m, "n": n, "mode": mode, "thorough": not q}, replay="summary", budget_s=1500))
    return obs
