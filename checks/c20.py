"""C20 — BCUR / bc32 / CBOR air-gap transport (DESIGN.md section 3, C20).

The real functions of buidl/bech32.py and buidl/bcur.py are run on symbolic payload bytes.  Python `str` stays concrete in
this engine, so text that carries payload symbols is represented by a handle (`SStr`: a sequence of concrete characters and
symbolic bech32 characters = (5-bit symbol, case flag)); the three places where the code under test builds / reads text
(`BECH32_ALPHABET[...]` / `.find`, `"".join`, f-strings) are re-pointed to handle-preserving equivalents by a source-level
transform (loader.PATCHES) and a module-global swap.  Everything between those seams is the unmodified code.
"""
import ast
import math
import time

from symx import core, loader, shims
from symx.core import (SI, SB, SBytes, Ratio, check, s_and, s_or, s_not, s_implies, s_ite, norm, bytes_env, Out, wrap, wrapb)
from vlib.run import Ob, sym_run, merge_runs, conc_run

PROPERTY = "C20"

META = {
    "bounds": {
        "quick": {
            "cbor": "payload lengths {0..25, 255, 256, 65535, 65536} with symbolic content (RFC 8949 head + round trip + decoding of the "
                    "RFC form); every byte string of length 0..6 as decoder input",
            "convertbits": "8->5->8 regrouping of every byte string of length 0..40; 5->8 (pad=False) of every 5-bit symbol string of "
                           "length 0..16 incl. the padding rule; out-of-range input values in [-2,34]",
            "bc32": "encode->decode for every payload of length 0..40 (lower and upper case text; checksum polynomial composed from the "
                    "O2-polymod-fold lemmas) and of length 0..3 with the whole real bech32_polymod; decode->encode (one text per payload) "
                    "for every text of the length of a 0..16-byte payload; mixed / upper / lower case for every string of 1..10 bech32 "
                    "characters in either case; a non-alphabet character at every position of 8- and 12-character strings",
            "polymod lemmas": "left fold through the first value for prefixes of 0..3 symbols; linearity of the last six symbols from "
                              "every 30-bit state",
            "bc32 substitution": "affine lemma on the real bech32_polymod (XOR-affine normal form) and a non-zero syndrome for every "
                                 "single-character substitution at every position of every text length of a 0..40-byte payload "
                                 "(6..70 characters), every two-character substitution for 0..12-byte payloads; one polymod step from "
                                 "every 30-bit state is injective and carries symbol differences (length-independent); the real "
                                 "bc32decode returns bytes only when the polynomial value (arbitrary) is 0x3FFFFFFF, texts of 6..26 "
                                 "characters",
            "chunking": "every encoded-text length L in 8..200 with every max_size_per_chunk in [1,2000] (symbolic); animate=False for "
                        "L = 8 mod 16",
            "bcur": "payload lengths {0,1,5,23,24,40}: BCURSingle (with / without checksum) and BCURMulti with every chunk size in "
                    "[1,2000]; every sequence with repetition of length 0..y over the y parts for (n,y) in {(0,2),(5,3),(24,2),(40,3)}; "
                    "headers x_i, y_i in [0,5] and a 58-character checksum symbolic in every part for (n,y) in {(0,1),(5,2),(24,3),(40,2)}; "
                    "each part in turn swapped for the matching part of a second symbolic payload for (n,y) in {(1,2),(5,2),(24,3)}; "
                    "every payload text of the genuine length and +-1 against the genuine digest for n in {0,1,5,23,24}"},
        "thorough": {
            "cbor": "lengths {0..300, 65535, 65536, 70000}; decoder input 0..7 bytes",
            "convertbits": "0..64 bytes; 0..40 symbols",
            "bc32": "encode->decode 0..64 bytes (composed polymod) and 0..4 bytes whole real polymod; decode->encode 0..40 bytes; case "
                    "strings 1..14",
            "polymod lemmas": "prefixes of 0..4 symbols",
            "bc32 substitution": "single substitutions for 0..125-byte payloads (6..206 characters), pairs for 0..30-byte payloads, "
                                 "acceptance for texts of 6..46 characters",
            "chunking": "L in 8..400 and L in 401..2000 step 27, chunk size symbolic in [1,2000]",
            "bcur": "payload lengths {0,1,5,23,24,40,64,255,256}; sequences for y <= 4; headers / swapped parts / tampered texts for "
                    "more (n,y) shapes (see obligations())",
            "fp": "ceil(float(a)/float(b)) == -(-a//b) for a < 2^12, 1 <= b < 2^8 as a QF_FP query (z3)"}},
    "outside": [
        "O2b: substitutions are decided on the checksum polynomial (syndrome != 0) and on what bc32decode accepts for an arbitrary "
        "polynomial value; texts of more than 206 characters (thorough) rest on the length-independent step lemmas of "
        "O2b-polymod-step plus the left-fold reading of the loop, an argument on paper that is not itself solver-checked; three or "
        "more substituted characters are not claimed (the property says 'a corrupted character')",
        "header *string* parsing for arbitrary text (_parse_bcur_helper: lower/strip/split/regex/int()): it is run concretely on the "
        "headers the real encoder produced (payload characters rendered as a placeholder of the same length and character "
        "class); symbolic header fields x, y, checksum enter behind that function (its contract there: x > y is refused)",
        "base64 (binascii.a2b_base64 / b2a_base64) is an opaque bijection between the text handle and the payload bytes",
        "judgement: the property demands that cbor_decode inverts cbor_encode at every length; RFC 8949 conformance of the head is "
        "additionally checked up to 65535 bytes.  Observed and NOT flagged (the property as worded holds): for lengths >= 65536 the "
        "library writes and reads the private initial byte 0x60 instead of RFC 8949's 0x5a (same as specter-desktop), and "
        "cbor_decode returns the available bytes of a truncated item instead of failing (inside BCUR this is caught by the bc32 "
        "checksum and the digest)",
        "judgement: 'fails loudly' = raises an Exception or returns None instead of bytes; trailing bytes after a complete "
        "CBOR item and non-minimal length forms are not counted as failures",
        "judgement: BCURMulti.parse does not compare the number of parts with y; a missing trailing part is 'rejected' through "
        "the bc32 checksum / digest, which is what is checked (under the SHA-256 assumption below)",
        "judgement: the number of parts is required to be ceil(len/max_size_per_chunk) and every part at most max_size_per_chunk "
        "characters (the reading of 'chunk size' under which the code is right); equal part lengths are not required",
        "payloads above 70000 bytes; float rounding in ceil(len/size) outside the FP lemma range (see assumptions)",
        "correctness of the GEN constants of bech32_polymod against BIP173 (only compared concretely with a reference in O0)"],
    "stubs": [
        "sha256 as an uninterpreted function on symbolic input (same symbol on both sides)",
        "text seams: BECH32_ALPHABET replaced by a symbol<->character handle table (the real table is checked concretely to be "
        "32 distinct lower-case characters); \"\".join and f-strings in bech32.py/bcur.py rewritten to handle-preserving builders",
        "bech32_polymod: the conditional expression `GEN[i] if bit else 0` is if-converted (validated against a reference on random "
        "inputs). Except in O2-bc32-roundtrip-real and O2-polymod-fold, polymod(values) for more than six values is composed as "
        "Z(values[:-6]) ^ pack(values[-6:]) with Z = polymod(values[:-6] + [0]*6) an uninterpreted 30-bit function of the prefix "
        "symbols; the composition is the lemma proved on the real code in O2-polymod-fold",
        "math.ceil on the exact rational len/size forks over the feasible quotients (q-1)*size < len <= q*size",
        "binascii base64 functions replaced by a handle pass-through", "print() empty",
        "witnesses whose text depends on the uninterpreted SHA-256 / polymod values record 'genuine digest' / 'valid checksum' as a "
        "flag; the replay re-derives that text with the real functions before running the native code"],
    "assumptions": [
        "SHA-256 is injective on the (at most three) CBOR strings hashed in one scenario (collision resistance); acceptance of an "
        "incomplete / foreign / tampered text is shown to imply a collision",
        "ceil(len/size) in BCURMulti.encode is read over the integers; IEEE-754 division is correctly rounded and all operands "
        "are far below 2^53 (discharged by the FP lemma for len < 2^12, size < 2^8 in the thorough tier only)",
        "bech32_polymod is a left fold over its argument with the single state variable chk (read off the source; solver-checked "
        "for prefixes of 0..4 symbols and concretely on random lists)"],
}

MANIFEST = {"technique": "symbolic execution of the real CBOR / bc32 / BCUR functions on symbolic payload bytes, 5-bit symbols, chunk "
                         "size and part headers; text carried as symbol handles; SHA-256 uninterpreted; z3 decides every path "
                         "against an independent layout / regrouping / chunking specification; bc32 substitution detection by an "
                         "XOR-affine normal form of the real bech32_polymod plus one z3 syndrome query per position (pair); histories "
                         "(attack after a genuine reception in the same process)"}

ALPHA = "qpzry9x8gf2tvdw0s3jn54khce6mua7l"   # harness copy of the bc32 character table (compared with the real one in O0)
LETTER = tuple(1 if c.isalpha() else 0 for c in ALPHA)
BC32_CONST = 0x3FFFFFFF


# =============================================================================================== text handles

def _b_iff(x, y):
    if isinstance(x, bool) and isinstance(y, bool):
        return x == y
    return s_or(s_and(x, y), s_and(s_not(x), s_not(y)))


def is_letter(sym):
    if isinstance(sym, int):
        return bool(LETTER[sym])
    return wrapb(core.b_cmp("eq", core.n_sel(LETTER, sym.n), core.const(1)))


class SCh:
    """one bech32 character: ALPHA[sym], upper-cased when `up` (digits have no case)"""
    __slots__ = ("sym", "up")

    def __init__(self, sym, up=False):
        self.sym = sym
        self.up = up

    def lower(self):
        return self if self.up is False else SCh(self.sym, False)

    def upper(self):
        return self if self.up is True else SCh(self.sym, True)

    def __repr__(self):
        return "<sym char>"


def ch_eq(a, b):
    """equality of two characters (str of length 1 or SCh) -> bool / SB"""
    if isinstance(a, str) and isinstance(b, str):
        return a == b
    if isinstance(a, str):
        a, b = b, a
    if isinstance(b, str):
        idx = ALPHA.find(b.lower())
        if idx < 0 or len(b) != 1:
            return False
        if LETTER[idx]:
            return s_and(a.sym == idx, _b_iff(a.up, b.isupper()))
        return a.sym == idx
    if a.up is False and b.up is False:
        return a.sym == b.sym
    return s_and(a.sym == b.sym, s_or(s_not(is_letter(a.sym)), _b_iff(a.up, b.up)))


class SStr:
    """text handle: list of concrete 1-character strings and SCh"""

    def __init__(self, items):
        self.items = list(items)

    @staticmethod
    def sym(name, n, cased=False):
        items = []
        for i in range(n):
            s = SI.var(f"{name}[{i}]", 0, 31)
            up = False
            if cased:
                bn = core.b_var(f"{name}.up[{i}]")
                core.ctx().vars[f"{name}.up[{i}]"] = bn
                up = SB(bn)
            items.append(SCh(s, up))
        return SStr(items)

    def __len__(self):
        return len(self.items)

    def __iter__(self):
        return iter(self.items)

    def __bool__(self):
        return len(self.items) > 0

    def __getitem__(self, k):
        if isinstance(k, slice):
            return snorm(SStr(self.items[k]))
        return self.items[k]

    def __add__(self, o):
        if isinstance(o, str):
            return SStr(self.items + list(o))
        if isinstance(o, SStr):
            return SStr(self.items + o.items)
        return NotImplemented

    def __radd__(self, o):
        if isinstance(o, str):
            return SStr(list(o) + self.items)
        return NotImplemented

    def lower(self):
        return SStr([i.lower() for i in self.items])

    def upper(self):
        return SStr([i.upper() for i in self.items])

    def strip(self):
        it = list(self.items)
        while it and isinstance(it[0], str) and it[0].isspace():
            it.pop(0)
        while it and isinstance(it[-1], str) and it[-1].isspace():
            it.pop()
        return SStr(it)

    def _eq(self, o):
        if isinstance(o, str):
            o = list(o)
        elif isinstance(o, SStr):
            o = o.items
        else:
            return False
        if len(o) != len(self.items):
            return False
        conds = []
        for a, b in zip(self.items, o):
            if a is b:
                continue
            c = ch_eq(a, b)
            if c is False:
                return False
            conds.append(c)
        return s_and(*conds) if conds else True

    def __eq__(self, o):
        return self._eq(o)

    def __ne__(self, o):
        return s_not(self._eq(o))

    def __hash__(self):
        # consistent with ==: fully concrete texts hash like the str they equal; texts with symbolic characters all hash alike, so
        # that set / dict look-ups among them are decided by == (which forks).  A look-up of a symbolic text against *concrete* str
        # keys of the same container is not modelled: the path set is marked inconclusive (the unchanged library never hashes these).
        if all(isinstance(i, str) for i in self.items):
            return hash("".join(self.items))
        if core.CTX is not None:
            note = ("a text handle with symbolic characters was hashed (set/dict key): compared by equality with other handles only; "
                    "look-ups against concrete str keys of the same container are not modelled")
            if note not in core.CTX.inconclusive:
                core.CTX.inconclusive.append(note)
        return 0x5159

    def split(self, sep):
        out, cur = [], []
        for it in self.items:
            if isinstance(it, str) and it == sep:
                out.append(SStr(cur))
                cur = []
            else:
                cur.append(it)
        out.append(SStr(cur))
        return out

    def render(self, ph="q"):
        """concrete text of the same length and character classes (symbolic characters -> placeholder)"""
        out = []
        for it in self.items:
            if isinstance(it, str):
                out.append(it)
            else:
                if it.up is not False:
                    raise core.Unsupported("render of a cased symbolic character")
                out.append(ph)
        return "".join(out)

    def __repr__(self):
        return f"<sym str len={len(self.items)}>"

    __str__ = __repr__

    def __format__(self, spec):
        return repr(self)


def snorm(s):
    if isinstance(s, SStr) and all(isinstance(i, str) for i in s.items):
        return "".join(s.items)
    return s


def sx_sjoin(sep, parts):
    parts = list(parts)
    if all(isinstance(p, str) for p in parts) and isinstance(sep, str):
        return sep.join(parts)
    items = []
    for k, p in enumerate(parts):
        if k:
            items.extend(list(sep) if isinstance(sep, str) else sep.items)
        if isinstance(p, str):
            items.extend(list(p))
        elif isinstance(p, SCh):
            items.append(p)
        elif isinstance(p, SStr):
            items.extend(p.items)
        else:
            raise TypeError(f"sequence item {k}: expected str instance, {type(p).__name__} found")
    return snorm(SStr(items))


def sx_fstr(*parts):
    """f-string: parts are literal str or (value, conversion, format_spec)"""
    out = []
    for p in parts:
        if isinstance(p, str):
            out.append(p)
            continue
        v, conv, spec = p
        if isinstance(v, (SStr, SCh)) and conv == -1 and not spec:
            out.append(v)
            continue
        if conv == ord("r"):
            v = repr(v)
        elif conv == ord("s"):
            v = str(v)
        elif conv == ord("a"):
            v = ascii(v)
        out.append(format(v, spec or ""))
    return sx_sjoin("", out)


def sx_ite(c, a, b):
    if isinstance(c, SI):
        c = (c != 0)
    if isinstance(c, SB):
        return s_ite(c, a, b)
    return a if c else b


class Alphabet:
    """stands for the module global BECH32_ALPHABET: indexing by a symbolic 5-bit symbol gives a character handle, find() of a
    handle gives its symbol back; concrete arguments go to the real string"""

    def __init__(self, real):
        self.real = real

    def __contains__(self, x):
        if isinstance(x, SCh):
            if x.up is False:
                return True
            return bool(s_or(s_not(x.up), s_not(is_letter(x.sym))))
        return x in self.real

    def find(self, c):
        if isinstance(c, SCh):
            if c.up is False:
                return c.sym
            return s_ite(s_and(c.up, is_letter(c.sym)), -1, c.sym)
        return self.real.find(c)

    def index(self, c):
        r = self.find(c)
        if isinstance(r, int) and r < 0:
            raise ValueError("substring not found")
        return r

    def __getitem__(self, d):
        if isinstance(d, SI):
            if d.lo >= 0 and d.hi <= 31:
                return SCh(d)
            if s_and(d >= 0, d <= 31):
                return SCh(wrap(core._clamp(d.n, 0, 31)))
            return self.real[core.concretize(d)]
        return self.real[d]

    def __len__(self):
        return len(self.real)

    def __iter__(self):
        return iter(self.real)

    def __str__(self):
        return self.real


class B64Text:
    """the base64 text of a payload (opaque: only its payload bytes are known)"""

    def __init__(self, b):
        self.b = b

    def __eq__(self, o):
        return isinstance(o, B64Text) and (len(o.b) == len(self.b)) and (o.b == self.b)

    def __hash__(self):
        return hash(("b64", self.b))

    def __repr__(self):
        return "<base64 text>"

    def __format__(self, spec):
        return repr(self)


class _B64Bytes:
    def __init__(self, b):
        self.b = b

    def strip(self):
        return self

    def decode(self, *a):
        return B64Text(self.b)


def _a2b(t):
    if isinstance(t, B64Text):
        return t.b
    import binascii
    return binascii.a2b_base64(t)


def _b2a(b):
    if isinstance(b, (bytes, SBytes)):
        return _B64Bytes(b)
    import binascii
    return binascii.b2a_base64(b)


# =============================================================================================== source-level seams

class _Seams(ast.NodeTransformer):
    """f"..." -> __sx_fstr__(...), "".join(x) -> __sx_sjoin__("", x); inside bech32_polymod: a if c else b -> __sx_ite__(c, a, b)"""

    def __init__(self):
        self.fn = []

    def visit_FunctionDef(self, node):
        self.fn.append(node.name)
        self.generic_visit(node)
        self.fn.pop()
        return node

    def visit_JoinedStr(self, node):
        self.generic_visit(node)
        args = []
        for v in node.values:
            if isinstance(v, ast.Constant):
                args.append(v)
            else:
                args.append(ast.Tuple(elts=[v.value, ast.Constant(v.conversion), v.format_spec or ast.Constant(None)], ctx=ast.Load()))
        return ast.copy_location(ast.Call(func=ast.Name(id="__sx_fstr__", ctx=ast.Load()), args=args, keywords=[]), node)

    def visit_FormattedValue(self, node):
        self.generic_visit(node)
        return node

    def visit_Call(self, node):
        self.generic_visit(node)
        f = node.func
        if isinstance(f, ast.Attribute) and f.attr == "join" and isinstance(f.value, ast.Constant) and isinstance(f.value.value, str):
            return ast.copy_location(ast.Call(func=ast.Name(id="__sx_sjoin__", ctx=ast.Load()), args=[f.value] + node.args, keywords=[]), node)
        return node

    def visit_IfExp(self, node):
        self.generic_visit(node)
        if self.fn and self.fn[-1] == "bech32_polymod":
            return ast.copy_location(ast.Call(func=ast.Name(id="__sx_ite__", ctx=ast.Load()), args=[node.test, node.body, node.orelse],
                                              keywords=[]), node)
        return node


def _patch(tree):
    return _Seams().visit(tree)


loader.PATCHES["sbuidl.bech32"] = _patch
loader.PATCHES["sbuidl.bcur"] = _patch

_STATE = {}


def mods():
    """the shimmed bech32 / bcur modules with the text seams installed (once per process)"""
    if "be" not in _STATE:
        be = loader.load("bech32")
        bc = loader.load("bcur")
        for m in (be, bc):
            m.__dict__["__sx_fstr__"] = sx_fstr
            m.__dict__["__sx_sjoin__"] = sx_sjoin
            m.__dict__["__sx_ite__"] = sx_ite
        _STATE["real_alpha"] = be.BECH32_ALPHABET
        _STATE["real_polymod"] = be.bech32_polymod
        _STATE["real_helper"] = bc._parse_bcur_helper
        be.BECH32_ALPHABET = Alphabet(be.BECH32_ALPHABET)
        bc.a2b_base64 = _a2b
        bc.b2a_base64 = _b2a
        bc.ceil = sx_ceil
        bc._parse_bcur_helper = seam_helper
        _STATE["be"], _STATE["bc"] = be, bc
    return _STATE["be"], _STATE["bc"]


def use_polymod(kind):
    be, _ = mods()
    be.bech32_polymod = _STATE["real_polymod"] if kind == "real" else fold_polymod


def _native_polymod(values):
    return loader.native("bech32").bech32_polymod(list(values))


def fold_polymod(values):
    """bech32_polymod(values), compositionally: Z = polymod(values[:-6] + [0]*6) is an uninterpreted 30-bit function of the
    symbols values[:-6] (it *is* a function of them), and the last six symbols enter linearly: result = Z ^ pack(values[-6:]).
    The linearity is the lemma of O2-polymod-fold, proved there on the real code (left fold through the first value + linear tail
    from an arbitrary 30-bit state).  Concrete prefixes use the same function symbol (so that a symbolic text that equals a
    concrete one gets the same checksum); lists of at most six values go to the real code."""
    real = _STATE["real_polymod"]
    values = list(values)
    if len(values) <= 6:
        return real(values)
    pre, tail = values[:-6], values[-6:]
    if not all((isinstance(v, int) and 0 <= v <= 31) or (isinstance(v, SI) and v.lo >= 0 and v.hi <= 31) for v in values):
        return real(values)
    arg = 0
    for v in pre:
        arg = (arg << 5) | v
    name = f"pmzero_{len(pre)}"
    if name not in core.UF_IMPL:
        k = len(pre)
        core.UF_IMPL[name] = lambda val, k=k: _native_polymod([(val >> (5 * (k - 1 - i))) & 31 for i in range(k)] + [0] * 6)
    z = wrap(core.n_uf(name, 30, [core.lift(arg)], widths=(5 * len(pre),)))
    pack = 0
    for x in tail:
        pack = (pack << 5) | x
    return z ^ pack


def sx_ceil(x):
    """math.ceil; for an exact rational with concrete numerator and symbolic positive denominator: one path per feasible
    quotient q, characterised by (q-1)*den < num <= q*den.  The candidate list is only a hint: the solver decides each branch
    and the fall-through (a quotient outside the list) is reported as unsupported if it is feasible."""
    if isinstance(x, Ratio):
        num, den = x.num, x.den
        if isinstance(den, SI) and isinstance(num, int) and num >= 0 and den.lo >= 1:
            if num == 0:
                return 0
            cands = sorted({-(-num // v) for v in range(den.lo, min(den.hi, num) + 1)} | {1})
            for q in cands:
                if s_and((q - 1) * den < num, q * den >= num):
                    return q
            raise core.Unsupported("sx_ceil: quotient outside the candidate list")
        return x.__ceil__()
    if isinstance(x, SI):
        return x
    return math.ceil(x)


class Part:
    """a BCUR part seen behind _parse_bcur_helper: header fields may be symbolic"""

    def __init__(self, payload, checksum, x, y):
        self.payload, self.checksum, self.x, self.y = payload, checksum, x, y


def seam_helper(bcur_string):
    """stands for _parse_bcur_helper.  Text produced by the real encoder (SStr) is rendered and parsed by the *real* helper
    (concretely); the payload / checksum pieces are mapped back to their handles by position.  A Part gives its fields."""
    _, bc = mods()
    if isinstance(bcur_string, Part):
        p = bcur_string
        if p.x > p.y:
            raise bc.BCURStringFormatError("x must be >= y (in x-of-y)")
        return p.payload, p.checksum, p.x, p.y
    if isinstance(bcur_string, SStr):
        text = bcur_string.render()
        payload_s, checksum_s, x, y = _STATE["real_helper"](text)
        pieces = bcur_string.lower().strip().split("/")
        payload = snorm(pieces[-1])
        checksum = snorm(pieces[-2]) if len(pieces) >= 3 else None
        rp = payload if isinstance(payload, str) else payload.render()
        rc = checksum if (checksum is None or isinstance(checksum, str)) else checksum.render()
        if rp != payload_s or (rc or None) != (checksum_s or None):
            raise core.Unsupported("text seam: pieces of the rendered header do not line up with the handles")
        return payload, checksum, x, y
    return _STATE["real_helper"](bcur_string)


# =============================================================================================== specifications (plain Python; run on proxies and on ints/bytes)

def spec_cbor(data):
    """RFC 8949 section 3.1: byte string = major type 2, shortest length form"""
    n = len(data)
    if n <= 23:
        return bytes([0x40 + n]) + data
    if n <= 0xFF:
        return bytes([0x58, n]) + data
    if n <= 0xFFFF:
        return b"\x59" + n.to_bytes(2, "big") + data
    if n <= 0xFFFFFFFF:
        return b"\x5a" + n.to_bytes(4, "big") + data
    return b"\x5b" + n.to_bytes(8, "big") + data


def spec_cbor_item(raw, k):
    """raw (bytes or SBytes) against RFC 8949 byte strings with k content bytes.  Returns
    (raw[0] is a definite-length major-type-2 initial byte, raw starts with a complete item of k content bytes in some length form,
    [(condition of that form, header size)])"""
    n = len(raw)
    b0 = raw[0]
    major2 = s_and(b0 >= 0x40, b0 <= 0x5B)
    forms = []
    if n >= 1 + k:
        forms.append((s_and(b0 >= 0x40, b0 <= 0x57, b0 - 0x40 == k), 1))
    for ib, w in ((0x58, 1), (0x59, 2), (0x5A, 4), (0x5B, 8)):
        if n >= 1 + w + k:
            forms.append((s_and(b0 == ib, _be(raw[1:1 + w]) == k), 1 + w))
    return major2, (s_or(*[c for c, _ in forms]) if forms else False), forms


def _be(b):
    v = 0
    for x in b:
        v = (v << 8) | x
    return v


def spec_cbor_decode(raw):
    """strict reference decoder for one definite-length byte string; trailing bytes ignored. returns bytes or None (reject)"""
    if not raw:
        return None
    b0 = raw[0]
    if 0x40 <= b0 <= 0x57:
        k, h = b0 - 0x40, 1
    elif b0 in (0x58, 0x59, 0x5A, 0x5B):
        w = 1 << (b0 - 0x58)
        if len(raw) < 1 + w:
            return None
        k, h = int.from_bytes(raw[1:1 + w], "big"), 1 + w
    else:
        return None
    if len(raw) < h + k:
        return None
    return bytes(raw[h:h + k])


def spec_8to5(data):
    """big-endian bit string of data, zero-padded on the right to a multiple of 5, cut into 5-bit symbols"""
    n = len(data)
    m = -(-8 * n // 5)
    N = _be(data) << (5 * m - 8 * n) if n else 0
    return [(N >> (5 * (m - 1 - i))) & 31 for i in range(m)]


def spec_5to8(syms):
    """inverse regrouping: None when 5 or more bits are left over or a left-over bit is set (bc32 / BIP173 rule)"""
    m = len(syms)
    nb, rem = 5 * m // 8, 5 * m % 8
    N = 0
    for s in syms:
        N = (N << 5) | s
    if rem >= 5:
        return None, False
    padzero = (N & ((1 << rem) - 1)) == 0
    body = N >> rem
    return [(body >> (8 * (nb - 1 - i))) & 255 for i in range(nb)], padzero


def spec_polymod(values):
    """BIP173 checksum polynomial, written with bit tests instead of a conditional expression (concrete values only)"""
    gen = (0x3B6A57B2, 0x26508E6D, 0x1EA119FA, 0x3D4233DD, 0x2A1462B3)
    c = 1
    for v in values:
        top = c >> 25
        c = ((c & 0x1FFFFFF) << 5) ^ v
        for i in range(5):
            if (top >> i) & 1:
                c ^= gen[i]
    return c


def spec_bc32encode(data):
    dd = spec_8to5(data)
    pm = spec_polymod([0] + dd + [0] * 6) ^ BC32_CONST
    return "".join(ALPHA[d] for d in dd + [(pm >> 5 * (5 - i)) & 31 for i in range(6)])


def _hex_or_sparse(b):
    b = bytes(b)
    if len(b) <= 2048:
        return {"n": len(b), "d": b.hex()}
    return {"n": len(b), "nz": [[i, v] for i, v in enumerate(b) if v][:4000]}


def _bytes_of(w):
    if "d" in w and w["d"] is not None:
        return bytes.fromhex(w["d"])
    b = bytearray(w["n"])
    for i, v in w.get("nz", []):
        b[i] = v
    return bytes(b)


# =============================================================================================== O0 trusted base

def ob_tables():
    def f():
        be = loader.native("bech32")
        a = be.BECH32_ALPHABET
        ok = a == ALPHA and len(set(a)) == 32 and a == a.lower() and all(a.find(c) == i and a[i] == c for i, c in enumerate(a))
        ok = ok and all(be.uses_only_bech32_chars(c) for c in a) and not any(ch in a for ch in "/: bio1")
        import random
        for _ in range(300):
            v = [random.randrange(32) for _ in range(random.randrange(0, 80))]
            ok = ok and be.bech32_polymod(list(v)) == spec_polymod(v)
            if len(v) > 6:
                ok = ok and be.bech32_polymod([be.bech32_polymod(v[:-6]) ^ 32] + v[-6:]) == be.bech32_polymod(v)
        return ok, "BECH32_ALPHABET is the 32-character lower-case bijection used by the handles; bech32_polymod left-fold on 300 random lists"
    return conc_run(f, "bc32 character table and polymod fold (concrete)")


# =============================================================================================== O1 CBOR

def _cbor_rt_path(n):
    be, _ = mods()
    d = SBytes.sym("d", n) if n else b""

    def wit(env):
        w = _hex_or_sparse(bytes_env(env, "d", n))
        w["kind"] = "cbor_rt"
        return w
    e = be.cbor_encode(d)
    want = spec_cbor(d)
    if n <= 0xFFFF:
        check((len(e) == len(want)) and (e == want), "cbor_encode: prefix is not the RFC 8949 byte-string head (major type 2, shortest form)", witness=wit)
    else:
        # the property demands that the decoder inverts the encoder, not RFC conformance: the library writes the private initial
        # byte 0x60 for 4-byte lengths (RFC 8949: 0x5a) and reads it back consistently -- noted in META, not flagged
        check((len(e) == len(want)) and (e[1:] == want[1:]), "cbor_encode: 4-byte length field / content layout", witness=wit)
    try:
        back = be.cbor_decode(e)
    except Exception as ex:
        check(False, f"cbor_decode(cbor_encode(d)) raised {type(ex).__name__}", witness=wit)
        return Out("raised", e)
    check(back is not None and (len(back) == n) and (back == d), "cbor_decode(cbor_encode(d)) != d", witness=wit)
    if n <= 0xFFFF:
        try:
            b2 = be.cbor_decode(want)
        except Exception:
            b2 = None
        check(b2 is not None and (len(b2) == n) and (b2 == d), "cbor_decode rejects / misreads the RFC 8949 encoding of d", witness=wit)
    return Out("ok", e)


def ob_cbor_rt(lengths):
    nat = loader.native("bech32")
    runs = []
    for n in lengths:
        kw = {}
        if n <= 300:
            kw = dict(gen_env=lambda rng, n=n: {f"d[{i}]": rng.randrange(256) for i in range(n)},
                      native=lambda env, n=n: nat.cbor_encode(bytes_env(env, "d", n)), n_val=3)
        runs.append(sym_run(lambda: _cbor_rt_path(n), **kw))
    m = merge_runs(runs)
    m["sample"] = {"d": "symbolic bytes", "lengths": list(lengths)[:30]}
    return m


def replay_cbor_rt(w):
    from buidl import bech32
    d = _bytes_of(w)
    e = bech32.cbor_encode(d)
    want = spec_cbor(d)
    try:
        back = bech32.cbor_decode(e)
    except Exception as ex:
        back = repr(ex)
    try:
        b2 = bech32.cbor_decode(want)
    except Exception as ex:
        b2 = repr(ex)
    if len(d) > 0xFFFF:
        bad = e[1:] != want[1:] or back != d
    else:
        bad = e != want or back != d or b2 != d
    return {"violated": bad, "observed": f"len {len(d)}: cbor_encode head {e[:len(e) - len(d)].hex()} (RFC 8949 {want[:len(want) - len(d)].hex()}); "
                                         f"round trip {'ok' if back == d else 'FAILS'}; decode of the RFC form {'ok' if b2 == d else 'FAILS: ' + repr(b2)[:40]}"}


def _cbor_any_path(n):
    be, _ = mods()
    raw = SBytes.sym("r", n) if n else b""
    wit = lambda env: {"raw": bytes_env(env, "r", n).hex(), "kind": "cbor_any"}  # noqa
    try:
        r = be.cbor_decode(raw)
    except Exception as ex:
        check(True, "rejected")
        return "raised:" + type(ex).__name__
    if r is None:
        # loud; but a complete minimal RFC item must not be refused (the liveness half for short inputs)
        return "none"
    k = len(r)
    major2, complete, forms = spec_cbor_item(raw, k)
    if bool(raw[0] == 0x60):
        return "data:private-4-byte-head"  # the library's own 4-byte-length form (see META outside); not flagged
    if not check(major2, "cbor_decode returned data for an initial byte that is not a definite-length byte string (0x40..0x5b)", witness=wit):
        return "data:bad-prefix"
    if not bool(complete):
        # a truncated item yields the bytes that are present instead of an error; C20 as worded demands inversion of the encoder
        # (and BCUR-level rejection, which the bc32 checksum and the digest provide), not a strict stand-alone CBOR decoder
        return "data:truncated"
    conds = []
    for cond, hdr in forms:
        conds.append(s_implies(cond, raw[hdr:hdr + k] == r if k else True))
    check(s_and(*conds), "cbor_decode returned bytes that are not the content of the item", witness=wit)
    return "data"


def ob_cbor_any(maxn):
    runs = [sym_run(lambda: _cbor_any_path(n)) for n in range(0, maxn + 1)]
    m = merge_runs(runs)
    m["sample"] = {"raw": f"every byte string of length 0..{maxn}"}
    for cls in ("'none'", "'data'"):
        if cls not in m["classes"]:
            m["inconclusive"].append(f"reachability twin: outcome class {cls} never reached")
    return m


def replay_cbor_any(w):
    from buidl import bech32
    raw = bytes.fromhex(w["raw"])
    try:
        r = bech32.cbor_decode(raw)
    except Exception as ex:
        return {"violated": False, "observed": f"raised {ex!r}"}
    if r is None:
        return {"violated": False, "observed": "None"}
    want = spec_cbor_decode(raw)
    return {"violated": want is None or want != r,
            "observed": f"cbor_decode({raw.hex()}) returned {bytes(r).hex()!r} ({len(r)} bytes); a strict RFC 8949 byte-string decoder gives "
                        f"{'reject' if want is None else want.hex()}"}


# =============================================================================================== O2 bc32

def _cb_bytes_path(n):
    be, _ = mods()
    d = SBytes.sym("d", n) if n else b""
    wit = lambda env: {"d": bytes_env(env, "d", n).hex(), "kind": "cb8"}  # noqa
    syms = be.convertbits(d, 8, 5)
    want = spec_8to5(d)
    check(syms is not None and len(syms) == len(want) and s_and(*[a == b for a, b in zip(syms, want)]),
          "convertbits(8->5) is not the big-endian regrouping with zero padding", witness=wit)
    back = be.convertbits(syms, 5, 8, False)
    check(back is not None and len(back) == n and s_and(*[a == b for a, b in zip(back, d)]),
          "convertbits(5->8, pad=False) does not invert convertbits(8->5)", witness=wit)
    return Out("ok", syms)


def _cb_syms_path(m, lo=0, hi=31):
    be, _ = mods()
    q = [SI.var(f"q[{i}]", lo, hi) for i in range(m)]
    wit = lambda env: {"q": [env[f"q[{i}]"] for i in range(m)], "kind": "cb5"}  # noqa
    r = be.convertbits(q, 5, 8, False)
    inrange = s_and(*[s_and(x >= 0, x <= 31) for x in q]) if m else True
    if r is None:
        if not bool(inrange):
            check(True, "out of range refused")
            return "none:range"
        _, padzero = spec_5to8(q)
        check(s_not(padzero), "convertbits(5->8, pad=False) refuses a correctly padded symbol string", witness=wit)
        return Out("none", None)
    check(inrange, "convertbits accepts a value outside [0, 2^frombits)", witness=wit)
    if not bool(inrange):
        return "bytes:range"
    want, padzero = spec_5to8(q)
    check(want is not None and padzero, "convertbits(5->8, pad=False) accepts non-zero / over-long padding", witness=wit)
    if want is not None:
        check(len(r) == len(want) and s_and(*[a == b for a, b in zip(r, want)]), "convertbits(5->8) bytes differ from the regrouping", witness=wit)
    return Out("bytes", r)


def ob_convertbits(lengths, symlens):
    nat = loader.native("bech32")
    runs = []
    for n in lengths:
        runs.append(sym_run(lambda: _cb_bytes_path(n), gen_env=lambda rng, n=n: {f"d[{i}]": rng.randrange(256) for i in range(n)},
                            native=lambda env, n=n: nat.convertbits(bytes_env(env, "d", n), 8, 5), n_val=3))
    for m in symlens:
        runs.append(sym_run(lambda: _cb_syms_path(m), gen_env=lambda rng, m=m: {f"q[{i}]": rng.randrange(32) for i in range(m)},
                            native=lambda env, m=m: nat.convertbits([env[f"q[{i}]"] for i in range(m)], 5, 8, False), n_val=4))
    if symlens:
        runs.append(sym_run(lambda: _cb_syms_path(3, -2, 34)))
    mm = merge_runs(runs)
    mm["sample"] = {"bytes": f"lengths {list(lengths)[:1]}..{list(lengths)[-1:]}", "symbols": f"lengths {list(symlens)[:1]}..{list(symlens)[-1:]}"}
    return mm


def replay_convertbits(w):
    from buidl import bech32
    if w.get("kind") == "cb8":
        d = bytes.fromhex(w["d"])
        s = bech32.convertbits(d, 8, 5)
        want = spec_8to5(d)
        back = bech32.convertbits(s, 5, 8, False) if s is not None else None
        return {"violated": s != want or back != list(d), "observed": f"convertbits({d.hex()},8,5) = {s} (spec {want}); back = {back}"}
    q = w["q"]
    r = bech32.convertbits(list(q), 5, 8, False)
    if any(x < 0 or x > 31 for x in q):
        return {"violated": r is not None, "observed": f"convertbits({q},5,8,False) = {r}"}
    want, padzero = spec_5to8(q)
    exp = want if (want is not None and padzero) else None
    return {"violated": r != exp, "observed": f"convertbits({q},5,8,False) = {r}, regrouping rule gives {exp}"}


def _polymod_fold_path(k):
    mods()
    real = _STATE["real_polymod"]
    p = [SI.var(f"p[{i}]", 0, 31) for i in range(k)]
    t = [SI.var(f"t[{i}]", 0, 31) for i in range(6)]
    wit = lambda env: {"p": [env[f"p[{i}]"] for i in range(k)], "t": [env[f"t[{i}]"] for i in range(6)]}  # noqa
    whole = real([0] + p + t)
    st = real([0] + p)
    folded = real([st ^ 32] + t)
    check(whole == folded, "bech32_polymod(p + t) != bech32_polymod([bech32_polymod(p) ^ 32] + t) (left fold through the first value)", witness=wit)
    # linearity of the last six symbols (what makes the checksum a checksum): polymod(p + t) = polymod(p + 0^6) ^ pack(t)
    zero = real([st ^ 32] + [0] * 6)
    pack = 0
    for x in t:
        pack = (pack << 5) | x
    check(folded == (zero ^ pack), "the last six symbols do not enter bech32_polymod linearly", witness=wit)
    return Out("ok", whole)


def ob_polymod_fold(maxk):
    runs = []
    for k in range(0, maxk + 1):
        runs.append(sym_run(lambda: _polymod_fold_path(k), timeout_ms=60000,
                            gen_env=lambda rng, k=k: dict([(f"p[{i}]", rng.randrange(32)) for i in range(k)] + [(f"t[{i}]", rng.randrange(32)) for i in range(6)]),
                            native=lambda env, k=k: spec_polymod([0] + [env[f"p[{i}]"] for i in range(k)] + [env[f"t[{i}]"] for i in range(6)]),
                            n_val=6))
    # arbitrary 30-bit entry state
    def p2():
        mods()
        real = _STATE["real_polymod"]
        S = SI.var("S", 0, (1 << 30) - 1)
        t = [SI.var(f"t[{i}]", 0, 31) for i in range(6)]
        wit = lambda env: {"S": env["S"], "t": [env[f"t[{i}]"] for i in range(6)]}  # noqa
        a = real([S ^ 32] + t)
        z = real([S ^ 32] + [0] * 6)
        pack = 0
        for x in t:
            pack = (pack << 5) | x
        check(a == (z ^ pack), "tail linearity from an arbitrary state", witness=wit)
        return Out("ok", a)
    runs.append(sym_run(p2, timeout_ms=60000, gen_env=lambda rng: dict([("S", rng.randrange(1 << 30))] + [(f"t[{i}]", rng.randrange(32)) for i in range(6)]),
                        native=lambda env: _spec_polymod_from(env["S"], [env[f"t[{i}]"] for i in range(6)]), n_val=8))
    m = merge_runs(runs)
    m["sample"] = {"p": f"0..{maxk} symbolic 5-bit symbols", "t": "6 symbolic symbols", "S": "symbolic 30-bit state"}
    return m


def _spec_polymod_from(S, t):
    return spec_polymod([S ^ 32] + list(t))


def replay_polymod(w):
    from buidl import bech32
    if "S" in w:
        a = bech32.bech32_polymod([w["S"] ^ 32] + w["t"])
        z = bech32.bech32_polymod([w["S"] ^ 32] + [0] * 6)
        pack = 0
        for x in w["t"]:
            pack = (pack << 5) | x
        return {"violated": a != z ^ pack, "observed": f"state {w['S']:#x} tail {w['t']}: {a:#x} vs {z ^ pack:#x}"}
    v = [0] + w["p"] + w["t"]
    a = bech32.bech32_polymod(list(v))
    b = bech32.bech32_polymod([bech32.bech32_polymod(v[:-6]) ^ 32] + v[-6:])
    return {"violated": a != b or a != spec_polymod(v), "observed": f"polymod({v}) = {a:#x}, folded {b:#x}, reference {spec_polymod(v):#x}"}


def _bc32_rt_path(n, kind):
    be, _ = mods()
    use_polymod(kind)
    d = SBytes.sym("d", n) if n else b""
    wit = lambda env: {"d": bytes_env(env, "d", n).hex()}  # noqa
    s = be.bc32encode(d)
    m = -(-8 * n // 5) + 6
    check(len(s) == m, "bc32encode length", witness=wit)
    if n <= 8:   # (all lengths: O2-convertbits)
        want = spec_8to5(d)
        syms = [be.BECH32_ALPHABET.find(c) for c in s]
        check(s_and(*[a == b for a, b in zip(syms[:len(want)], want)]) if want else True,
              "bc32encode data characters are not the 5-bit regrouping of the payload", witness=wit)
    try:
        back = be.bc32decode(s)
    except Exception as ex:
        check(False, f"bc32decode(bc32encode(d)) raised {type(ex).__name__}", witness=wit)
        return "raised"
    if back is None:
        check(False, "bc32decode(bc32encode(d)) is None (checksum or padding refused)", witness=wit)
        return "none"
    check((len(back) == n) and (back == d), "bc32decode(bc32encode(d)) != d", witness=wit)
    # the upper-case form (QR alphanumeric mode) decodes to the same payload
    up = be.bc32decode(s.upper() if not isinstance(s, str) else s.upper())
    check(up is not None and (len(up) == n) and (up == d), "bc32decode(bc32encode(d).upper()) != d", witness=wit)
    return "ok"


def ob_bc32_rt(lengths, kind):
    runs = [sym_run(lambda: _bc32_rt_path(n, kind), timeout_ms=60000, expect_classes=["ok"]) for n in lengths]
    m = merge_runs(runs)
    m["sample"] = {"d": "symbolic bytes", "lengths": list(lengths), "polymod": kind}
    return m


def replay_bc32_rt(w):
    from buidl import bech32
    d = bytes.fromhex(w["d"])
    s = bech32.bc32encode(d)
    back = bech32.bc32decode(s)
    up = bech32.bc32decode(s.upper())
    bad = back != d or up != d or s != spec_bc32encode(d)
    return {"violated": bad, "observed": f"bc32encode({d.hex()}) = {s} (reference {spec_bc32encode(d)}); decode -> {back!r}; upper -> {up!r}"}


def _bc32_canon_path(n):
    """every accepted lower-case string is the encoding of what it decodes to"""
    be, _ = mods()
    use_polymod("fold")
    m = -(-8 * n // 5) + 6
    s = SStr.sym("s", m)

    def wit(env):
        ok = _model_true(be.bech32_polymod([0] + [c.sym for c in s.items]) == BC32_CONST)
        return {"s": "".join(ALPHA[env[f"s[{i}]"]] for i in range(m)), "chk_valid": ok}
    try:
        r = be.bc32decode(s)
    except Exception:
        r = None
    if r is None:
        check(True, "refused")
        return "none"
    check(len(r) == n, "decoded length", witness=wit)
    e = be.bc32encode(r)
    check((len(e) == m) and (e == s), "bc32encode(bc32decode(s)) != s for an accepted s (two texts for one payload)", witness=wit)
    return "bytes"


def ob_bc32_canon(lengths):
    runs = [sym_run(lambda: _bc32_canon_path(n), timeout_ms=60000, expect_classes=["none", "bytes"]) for n in lengths]
    m = merge_runs(runs)
    m["sample"] = {"s": "every string of bech32 characters of the length of an n-byte payload", "n": list(lengths)}
    return m


def replay_bc32_canon(w):
    from buidl import bech32
    s = w["s"]
    if w.get("chk_valid") and len(s) >= 6:
        s = s[:-6] + _real_checksum(s[:-6])
    try:
        r = bech32.bc32decode(s)
    except Exception as ex:
        r = None
    if r is not None:
        e = bech32.bc32encode(r)
        if e != s:
            return {"violated": True, "observed": f"bc32decode({s}) = {r.hex()} but bc32encode gives {e}"}
    elif len(s) >= 6:
        s = s[:-6] + _real_checksum(s[:-6])
    # the model's checksum symbols live under the uninterpreted prefix function, so rebuild the class on the real polymod:
    # every string that differs from a genuine encoding in ONE checksum / last-data character must be refused
    alpha = "qpzry9x8gf2tvdw0s3jn54khce6mua7l"
    base = s
    for pos in range(max(0, len(base) - 8), len(base)):
        for ch in alpha:
            if ch == base[pos]:
                continue
            cand = base[:pos] + ch + base[pos + 1:]
            try:
                r2 = bech32.bc32decode(cand)
            except Exception:
                r2 = None
            if r2 is not None:
                return {"violated": True, "observed": f"bc32decode accepts {cand}, which differs from the valid text {base} in one character "
                                                      f"(position {pos - len(base)}), decoding to {bytes(r2).hex()}"}
    return {"violated": False, "observed": f"bc32decode({s}) round-trips and every single substitution in its last 8 characters is refused"}


def _text_of(env, name, m, cased=True):
    out = []
    for i in range(m):
        c = ALPHA[env[f"{name}[{i}]"]]
        if cased and env.get(f"{name}.up[{i}]"):
            c = c.upper()
        out.append(c)
    return "".join(out)


def _bc32_case_path(m):
    be, _ = mods()
    use_polymod("fold")
    s = SStr.sym("s", m, cased=True)

    def wit(env):
        ok = m >= 6 and _model_true(be.bech32_polymod([0] + [c.sym for c in s.items]) == BC32_CONST)
        return {"s": _text_of(env, "s", m), "up": [bool(env.get(f"s.up[{i}]")) for i in range(m)], "chk_valid": ok}
    has_up = s_or(*[s_and(c.up, is_letter(c.sym)) for c in s.items])
    has_lo = s_or(*[s_and(s_not(c.up), is_letter(c.sym)) for c in s.items])
    def dec(x):
        try:
            return be.bc32decode(x)
        except Exception:   # bytes(None) when the padding is refused: loud
            return None
    r = dec(s)
    if r is None:
        cls = "none"
    else:
        cls = "bytes"
        check(s_not(s_and(has_up, has_lo)), "bc32decode accepts a mixed-case string", witness=wit)
    r2 = dec(s.lower())
    if bool(s_and(has_up, has_lo)):
        return cls + ":mixed"
    same = (r is None and r2 is None) or (r is not None and r2 is not None and (len(r) == len(r2)) and (r == r2))
    check(same, "a single-case string decodes differently from its lower-case form", witness=wit)
    return cls


def _bc32_badchar_path(m, pos, ch):
    be, _ = mods()
    use_polymod("fold")
    s = SStr.sym("s", m)
    s.items[pos] = ch
    wit = lambda env: {"s": "".join(ch if i == pos else ALPHA[env[f"s[{i}]"]] for i in range(m))}  # noqa
    try:
        r = be.bc32decode(s)
    except Exception:
        r = None
    check(r is None, "bc32decode accepts a string with a character outside the bc32 alphabet", witness=wit)
    return "none" if r is None else "bytes"


def ob_bc32_case(lens, badlens):
    runs = [sym_run(lambda: _bc32_case_path(m), timeout_ms=60000) for m in lens]
    for m in badlens:
        for pos in range(m):
            ch = "b1io/ B"[(pos + m) % 7]
            runs.append(sym_run(lambda: _bc32_badchar_path(m, pos, ch)))
    mm = merge_runs(runs)
    mm["sample"] = {"s": "every string over the bc32 alphabet in either case", "lengths": list(lens), "bad character strings": list(badlens)}
    for cls in ("'none:mixed'", "'bytes'"):
        if cls not in mm["classes"]:
            mm["inconclusive"].append(f"reachability twin: outcome class {cls} never reached")
    return mm


def replay_bc32_case(w):
    from buidl import bech32
    s = w["s"]
    if w.get("chk_valid") and len(s) >= 6:
        # the solver's checksum characters are those of the uninterpreted polymod: put the real ones (same case flags)
        low = s[:-6].lower() + _real_checksum(s[:-6].lower())
        s = "".join(c.upper() if u else c for c, u in zip(low, w["up"]))
    try:
        r = bech32.bc32decode(s)
    except Exception as ex:
        return {"violated": False, "observed": f"raised {ex!r}"}
    if any(c.lower() not in ALPHA for c in s):
        return {"violated": r is not None, "observed": f"bc32decode({s!r}) = {r!r}"}
    mixed = any(c.isupper() for c in s) and any(c.islower() for c in s)
    if mixed:
        return {"violated": r is not None, "observed": f"mixed-case {s!r} -> {r!r}"}
    r2 = bech32.bc32decode(s.lower())
    return {"violated": r != r2, "observed": f"{s!r} -> {r!r}, lower-case form -> {r2!r}"}


def _syn_expr(e, cols5):
    acc = 0
    for b in range(5):
        if cols5[b]:
            acc = acc ^ s_ite(((e >> b) & 1) != 0, cols5[b], 0)
    return acc


def _bc32_subst_path(m, two):
    """O2b: affine lemma for the real bech32_polymod on [0] + m symbols (XOR-affine normal form, syntactic), then one z3 query per
    position: a non-zero 5-bit difference at that position changes the polynomial value (syndrome != 0), so at most one of the two
    texts has the value bc32decode demands.  `two`: also every pair of positions (thorough, short texts)."""
    from symx import anf
    mods()
    real = _STATE["real_polymod"]
    A = [SI.var(f"a[{i}]", 0, 31) for i in range(m)]
    B = [SI.var(f"b[{i}]", 0, 31) for i in range(m)]
    sp = anf.STRICT
    ma = anf.forms(real([0] + A), 30, sp)
    mb = anf.forms(real([0] + B), 30, sp)
    mab = anf.forms(real([0] + [x ^ y for x, y in zip(A, B)]), 30, sp)
    p0 = real([0] * (m + 1))
    lemma = isinstance(p0, int) and all((x ^ y ^ z) == ((p0 >> i) & 1) for i, (x, y, z) in enumerate(zip(ma, mb, mab)))
    check(lemma, "affine lemma: polymod([0]+a^b) == polymod([0]+a) ^ polymod([0]+b) ^ polymod(0..0) (normal forms differ)",
          witness=lambda env: {"kind": "affine", "m": m})
    c0, cols = anf.columns(ma)
    check(c0 == p0, "constant part of the normal form is not polymod(0..0)", witness=lambda env: {"kind": "affine", "m": m})
    col = [[cols.get(sp.atom_index(A[i].n, b), 0) for b in range(5)] for i in range(m)]
    e1 = SI.var("e1", 0, 31)
    e2 = SI.var("e2", 0, 31)
    S1 = [_syn_expr(e1, col[i]) for i in range(m)]
    for i in range(m):
        check(s_or(e1 == 0, S1[i] != 0), "a substitution of one character leaves the bc32 checksum polynomial unchanged",
              witness=lambda env, i=i: {"kind": "subst", "m": m, "subs": [[i, env["e1"]]]})
    if two:
        S2 = [_syn_expr(e2, col[i]) for i in range(m)]
        for i in range(m):
            for j in range(i + 1, m):
                check(s_or(s_and(e1 == 0, e2 == 0), (S1[i] ^ S2[j]) != 0),
                      "a substitution of two characters leaves the bc32 checksum polynomial unchanged",
                      witness=lambda env, i=i, j=j: {"kind": "subst", "m": m, "subs": [[i, env["e1"]], [j, env["e2"]]]})
    return "ok"


def ob_bc32_subst(ms, two=False):
    runs = [sym_run(lambda: _bc32_subst_path(m, two), timeout_ms=60000, max_violations=8, expect_classes=["ok"]) for m in ms]
    r = merge_runs(runs)
    r["sample"] = {"text lengths (characters incl. checksum)": list(ms), "difference": "symbolic non-zero 5-bit value at each position in turn"
                   + (" and at every pair of positions" if two else "")}
    return r


def _bc32_step_path():
    """length-independent part: one step of the real polymod loop from an ARBITRARY 30-bit state S (entered as the first list
    element S ^ 32, see O2-polymod-fold) (a) moves a difference of the fed symbol into the state unchanged and (b) is injective in
    the state.  With the left-fold reading of the loop (assumption, solver-checked for short prefixes) a single substituted
    symbol therefore changes the final value at every text length."""
    mods()
    real = _STATE["real_polymod"]
    S = SI.var("S", 0, (1 << 30) - 1)
    T = SI.var("T", 0, (1 << 30) - 1)
    v = SI.var("v", 0, 31)
    u = SI.var("u", 0, 31)
    wit = lambda env: {"kind": "step", "S": env["S"], "T": env["T"], "v": env["v"], "u": env["u"]}  # noqa
    a = real([S ^ 32, v])
    b = real([S ^ 32, u])
    c = real([T ^ 32, v])
    check((a ^ b) == (v ^ u), "one polymod step does not carry the symbol difference into the state unchanged", witness=wit)
    check(s_or(S == T, a != c), "one polymod step maps two different states to the same state", witness=wit)
    check(s_and(a >= 0, a < (1 << 30)), "polymod state leaves 30 bits", witness=wit)
    return Out("ok", a)


def ob_bc32_step():
    r = sym_run(_bc32_step_path, timeout_ms=120000, expect_classes=["ok"],
                gen_env=lambda rng: {"S": rng.randrange(1 << 30), "T": rng.randrange(1 << 30), "v": rng.randrange(32), "u": rng.randrange(32)},
                native=lambda env: spec_polymod([env["S"] ^ 32, env["v"]]), n_val=8)
    r["sample"] = {"S, T": "symbolic 30-bit states", "v, u": "symbolic 5-bit symbols"}
    return r


def _bc32_accept_path(m):
    """what the real bc32decode accepts, with the checksum polynomial an arbitrary value P of the recorded argument list: a text
    of m bech32 characters is decoded (bytes returned) only if P == 0x3FFFFFFF and the polynomial was evaluated on [0] + symbols"""
    be, _ = mods()
    P = SI.var("P", 0, (1 << 30) - 1)
    calls = []

    def probe(values):
        calls.append(list(values))
        return P
    be.bech32_polymod = probe
    try:
        s = SStr.sym("s", m)
        syms = [c.sym for c in s.items]

        def wit(env):
            return {"kind": "accept", "s": "".join(ALPHA[env[f"s[{i}]"]] for i in range(m)), "P": env["P"]}
        try:
            r = be.bc32decode(s)
        except core.Unsupported:
            raise
        except Exception:
            r = None
        if r is None:
            check(True, "refused")
            return "none"
        check(P == BC32_CONST, "bc32decode returns bytes although the checksum polynomial is not 0x3FFFFFFF", witness=wit)
        ok = len(calls) >= 1 and len(calls[-1]) == m + 1 and isinstance(calls[-1][0], int) and calls[-1][0] == 0 and \
            all((isinstance(x, SI) and x.n is y.n) for x, y in zip(calls[-1][1:], syms))
        check(ok, "bc32decode does not evaluate the checksum polynomial on [0] + the symbols of the text", witness=wit)
        return "bytes"
    finally:
        be.bech32_polymod = _STATE["real_polymod"]


def ob_bc32_accept(ms):
    runs = []
    for m in ms:
        n_ok = any(-(-8 * n // 5) + 6 == m for n in range(0, m))
        runs.append(sym_run(lambda: _bc32_accept_path(m), timeout_ms=60000, expect_classes=["none", "bytes"] if n_ok else ["none"]))
    r = merge_runs(runs)
    r["sample"] = {"text": "m symbolic bech32 characters (either case flag)", "m": list(ms), "polymod": "arbitrary 30-bit value"}
    return r


def replay_bc32_subst(w):
    """native: genuine encodings of the given text length, the recorded substitution applied, bc32decode must not return bytes"""
    from buidl import bech32
    import random
    kind = w.get("kind")
    if kind == "affine":
        m = w["m"]
        rng = random.Random(m)
        for _ in range(200):
            a = [rng.randrange(32) for _ in range(m)]
            b = [rng.randrange(32) for _ in range(m)]
            lhs = bech32.bech32_polymod([0] + [x ^ y for x, y in zip(a, b)])
            if lhs != bech32.bech32_polymod([0] + a) ^ bech32.bech32_polymod([0] + b) ^ bech32.bech32_polymod([0] * (m + 1)):
                return {"violated": True, "observed": f"bech32_polymod is not affine at length {m + 1}: a={a} b={b}"}
        return {"violated": False, "observed": "affine on 200 random pairs"}
    if kind == "step":
        S, T, v, u = w["S"], w["T"], w["v"], w["u"]
        a = bech32.bech32_polymod([S ^ 32, v])
        b = bech32.bech32_polymod([S ^ 32, u])
        c = bech32.bech32_polymod([T ^ 32, v])
        ra = spec_polymod([S ^ 32, v])
        bad = (a ^ b) != (v ^ u) or (S != T and a == c) or not 0 <= a < (1 << 30) or a != ra
        return {"violated": bad, "observed": f"step({S:#x},{v}) = {a:#x} (reference {ra:#x}), step({S:#x},{u}) = {b:#x}, step({T:#x},{v}) = {c:#x}"}
    if kind == "accept":
        s = w["s"]
        m = len(s)
        # rebuild the class on the real polynomial: texts whose real polymod is / is not the constant
        out = []
        if m >= 6 and w.get("P") is not None:
            # the last six symbols act bijectively on the 30-bit value: choose them so that the REAL polynomial equals the model's P
            syms = [ALPHA.find(c) for c in s]
            pm = spec_polymod([0] + syms[:-6] + [0] * 6) ^ (w["P"] & 0x3FFFFFFF)
            s = s[:-6] + "".join(ALPHA[(pm >> 5 * (5 - i)) & 31] for i in range(6))
        for cand in (s, s[:-6] + _real_checksum(s[:-6]) if m >= 6 else s):
            pm = bech32.bech32_polymod([0] + [ALPHA.find(c) for c in cand])
            try:
                r = bech32.bc32decode(cand)
            except Exception:
                r = None
            if r is not None and pm != BC32_CONST:
                return {"violated": True, "observed": f"bc32decode({cand}) = {bytes(r).hex()} although polymod = {pm:#x}"}
            out.append((cand, pm, r))
        # and every single substitution of the valid text must be refused
        base = out[-1][0]
        for pos in range(len(base)):
            for ch in ALPHA:
                if ch == base[pos]:
                    continue
                cand = base[:pos] + ch + base[pos + 1:]
                try:
                    r2 = bech32.bc32decode(cand)
                except Exception:
                    r2 = None
                if r2 is not None:
                    return {"violated": True, "observed": f"bc32decode accepts {cand}, one substitution (position {pos}) away from the valid text {base}"}
        return {"violated": False, "observed": f"{len(out)} texts judged by the real polynomial; all single substitutions of {base} refused"}
    m, subs = w["m"], [x for x in w["subs"] if x[1]]
    rng = random.Random(m * 131 + sum(p for p, _ in subs))
    tried = 0
    ns = [n for n in range(0, m) if -(-8 * n // 5) + 6 == m]
    for n in ns:
        for payload in (bytes(n), bytes(range(1, n + 1)), bytes(rng.randrange(256) for _ in range(n))):
            a = bech32.bc32encode(payload)
            data = list(a)
            for p, x in subs:
                data[p] = ALPHA[ALPHA.find(data[p]) ^ x]
            c = "".join(data)
            if c == a:
                continue
            tried += 1
            try:
                r = bech32.bc32decode(c)
            except Exception:
                r = None
            if r is not None:
                return {"violated": True, "observed": f"bc32encode({payload.hex()}) = {a}; substituting {len(subs)} character(s) gives {c}, "
                                                      f"which bc32decode accepts as {bytes(r).hex()}"}
    if not ns:
        # no payload has this text length: judge on the polynomial itself
        a = [rng.randrange(32) for _ in range(m)]
        b = list(a)
        for p, x in subs:
            b[p] ^= x
        same = bech32.bech32_polymod([0] + a) == bech32.bech32_polymod([0] + b)
        return {"violated": same and a != b, "observed": f"polymod of two texts differing in {len(subs)} position(s): {'equal' if same else 'different'}"}
    return {"violated": False, "observed": f"{tried} corrupted texts, all refused"}


# =============================================================================================== O3 BCUR

def _H(data):
    return shims._H("sha256", data).digest()


def _inj(*items):
    """SHA-256 is injective on the listed byte strings (pairwise): equal digests only for equal strings"""
    conds = []
    for i in range(len(items)):
        for j in range(i + 1, len(items)):
            a, b = items[i], items[j]
            same = (a == b) if len(a) == len(b) else False
            conds.append(s_or(same, _H(a) != _H(b)))
    return s_and(*conds) if conds else True


def _model_true(cond):
    """truth of a condition under the solver model of the failing query (used by witness builders: text that depends on the
    uninterpreted SHA-256 / polymod values is recorded as a flag and re-derived with the real functions at replay)"""
    if isinstance(cond, bool):
        return cond
    c = core.ctx()
    return bool(core.model_bool(c.model, cond.n, c.mode))


def _real_checksum(data_chars):
    dd = [ALPHA.find(ch) for ch in data_chars]
    pm = spec_polymod([0] + dd + [0] * 6) ^ BC32_CONST
    return "".join(ALPHA[(pm >> 5 * (5 - i)) & 31] for i in range(6))


def _bytes_eq(a, b):
    return a is not None and not isinstance(a, str) and (len(a) == len(b)) and (a == b)


def _text_len(n):
    """length of bc32encode(cbor_encode(d)) for an n-byte d (RFC head sizes; n < 65536 here)"""
    h = 1 if n <= 23 else (2 if n <= 255 else 3)
    return -(-8 * (n + h) // 5) + 6


def _chunk_size_for(L, y):
    for s in range(1, L + 1):
        if -(-L // s) == y:
            return s
    return None


def _check_parts(parts, encoded, enc_hash, s, animate, wit, L):
    """the list of part texts produced by BCURMulti.encode against the chunking specification; returns the parsed fields"""
    y = len(parts)
    if animate:
        check(s_and((y - 1) * s < L, L <= y * s), "number of parts is not ceil(len(text) / max_size_per_chunk)", witness=wit)
    else:
        check(y == 1, "animate=False must give a single part", witness=wit)
    fields = []
    for i, p in enumerate(parts):
        try:
            payload, checksum, x, yy = seam_helper(p)
        except core.Unsupported:
            raise
        except Exception as ex:
            check(False, f"a part produced by encode() is refused by _parse_bcur_helper ({type(ex).__name__})", witness=wit)
            return None
        fields.append((payload, checksum, x, yy))
    check(all(f[2] == i + 1 and f[3] == y for i, f in enumerate(fields)), "part header is not (position)of(number of parts)", witness=wit)
    check(s_and(*[f[1] is not None and (f[1] == enc_hash) for f in fields]), "part does not carry the digest text of the whole payload", witness=wit)
    check(all(len(f[0]) >= 1 for f in fields), "empty part", witness=wit)
    if animate:
        check(s_and(*[k <= s for k in sorted({len(f[0]) for f in fields})]), "part longer than max_size_per_chunk", witness=wit)
    joined = sx_sjoin("", [f[0] for f in fields])
    check((len(joined) == L) and (joined == encoded), "the parts do not cover the encoded text exactly", witness=wit)
    return fields


def _chunk_path(L, animate):
    _, bc = mods()
    obj = object.__new__(bc.BCURMulti)
    obj.encoded = SStr.sym("t", L)
    obj.enc_hash = SStr.sym("h", 58)
    obj.text_b64 = obj.checksum = None
    s = SI.var("s", 1, 2000)
    wit = lambda env: {"L": L, "s": env["s"], "animate": animate}  # noqa
    parts = obj.encode(max_size_per_chunk=s, animate=animate)
    _check_parts(parts, obj.encoded, obj.enc_hash, s, animate, wit, L)
    return len(parts)


def ob_chunking(Ls):
    runs = []
    for L in Ls:
        runs.append(sym_run(lambda: _chunk_path(L, True), expect_classes=[1, L, -(-L // 2)]))
        if L % 16 == 8:
            runs.append(sym_run(lambda: _chunk_path(L, False), expect_classes=[1]))
    m = merge_runs(runs)
    m["sample"] = {"encoded text": "L symbolic bech32 characters", "L": list(Ls)[:20], "max_size_per_chunk": "symbolic in [1,2000]"}
    return m


def _pattern_text(L, k=7):
    return "".join(ALPHA[(i * k + 3) % 32] for i in range(L))


def replay_chunking(w):
    from buidl import bcur
    L, s, animate = w["L"], w["s"], w["animate"]
    obj = object.__new__(bcur.BCURMulti)
    obj.encoded = _pattern_text(L)
    obj.enc_hash = _pattern_text(58, 11)
    try:
        parts = obj.encode(max_size_per_chunk=s, animate=animate)
        fields = [bcur._parse_bcur_helper(p) for p in parts]
    except Exception as ex:
        return {"violated": True, "observed": f"L={L} size={s}: {ex!r}"}
    y = len(parts)
    want = -(-L // s) if animate else 1
    lens = [len(f[0]) for f in fields]
    ok = y == want and all(f[2] == i + 1 and f[3] == y and f[1] == obj.enc_hash for i, f in enumerate(fields)) \
        and "".join(f[0] for f in fields) == obj.encoded and all(1 <= l and (l <= s or not animate) for l in lens)
    return {"violated": not ok, "observed": f"text length {L}, max_size_per_chunk {s}, animate {animate}: {y} parts (expected {want}) of lengths {lens[:12]}"}


# ---- sender / receiver scenarios

def _send_multi(bc, d, s, animate=True):
    obj = bc.BCURMulti(text_b64=B64Text(d))
    parts = obj.encode(max_size_per_chunk=s, animate=animate)
    return obj, parts


def _recv(fn, *a, **k):
    """('ok', object) or ('rejected', exception name)"""
    try:
        r = fn(*a, **k)
    except core.Unsupported:
        raise
    except Exception as ex:
        return "rejected", type(ex).__name__
    if r is None:
        return "rejected", "None"
    return "ok", r


def _warm(bc, *partlists, pairs=()):
    """history: the genuine payload(s) were received earlier in the same process (module / class level state of the library
    persists); outcomes are ignored"""
    for parts in partlists:
        _recv(bc.BCURMulti.parse, list(parts))
    for enc, h in pairs:
        _recv(bc.bcur_decode, enc, h)
        _recv(bc.bcur_decode, enc)


def _single_path(n, use_checksum):
    be, bc = mods()
    use_polymod("fold")
    d = SBytes.sym("d", n) if n else b""
    wit = lambda env: {"scenario": "single", "d": bytes_env(env, "d", n).hex(), "use_checksum": use_checksum}  # noqa
    obj = bc.BCURSingle(text_b64=B64Text(d))
    cb = spec_cbor(d)
    check((len(obj.encoded) == _text_len(n)) and (obj.encoded == be.bc32encode(cb)), "BCURSingle.encoded is not bc32(cbor(payload))", witness=wit)
    check((len(obj.enc_hash) == 58) and (obj.enc_hash == be.bc32encode(_H(cb))), "BCURSingle.enc_hash is not bc32(sha256(cbor(payload)))", witness=wit)
    text = obj.encode(use_checksum=use_checksum)
    want = sx_sjoin("", ["ur:bytes/", obj.enc_hash, "/", obj.encoded] if use_checksum else ["ur:bytes/", obj.encoded])
    check((len(text) == len(want)) and (text == want), "BCURSingle.encode layout", witness=wit)
    st, back = _recv(bc.BCURSingle.parse, text)
    if st != "ok":
        check(False, f"BCURSingle.parse(encode()) rejected ({back})", witness=wit)
        return "rejected"
    check(_bytes_eq(back.text_b64.b, d), "BCURSingle round trip returns a different payload", witness=wit)
    check((back.encoded == obj.encoded) and (back.enc_hash == obj.enc_hash), "BCURSingle round trip changes the encoding", witness=wit)
    st, r = _recv(bc.bcur_decode, obj.encoded, obj.enc_hash)
    check(st == "ok" and _bytes_eq(r, d), "bcur_decode(*bcur_encode(d)) != d", witness=wit)
    st, r = _recv(bc.bcur_decode, obj.encoded)
    check(st == "ok" and _bytes_eq(r, d), "bcur_decode(enc) != d", witness=wit)
    return "ok"


def _multi_path(n, animate):
    be, bc = mods()
    use_polymod("fold")
    d = SBytes.sym("d", n) if n else b""
    s = SI.var("s", 1, 2000)
    wit = lambda env: {"scenario": "multi", "d": bytes_env(env, "d", n).hex(), "s": env["s"], "animate": animate}  # noqa
    obj, parts = _send_multi(bc, d, s, animate)
    L = _text_len(n)
    check(len(obj.encoded) == L, "encoded text length", witness=wit)
    if _check_parts(parts, obj.encoded, obj.enc_hash, s, animate, wit, L) is None:
        return "bad-parts"
    st, back = _recv(bc.BCURMulti.parse, parts)
    if st != "ok":
        check(False, f"BCURMulti.parse(encode()) rejected ({back})", witness=wit)
        return "rejected"
    check(_bytes_eq(back.text_b64.b, d), "BCURMulti round trip returns a different payload", witness=wit)
    check((back.encoded == obj.encoded) and (back.enc_hash == obj.enc_hash), "BCURMulti round trip changes the encoding", witness=wit)
    return len(parts)


def ob_bcur_roundtrip(n):
    L = _text_len(n)
    runs = [sym_run(lambda: _single_path(n, True), expect_classes=["ok"]), sym_run(lambda: _single_path(n, False), expect_classes=["ok"]),
            sym_run(lambda: _multi_path(n, True), expect_classes=[1, 2, L], timeout_ms=60000),
            sym_run(lambda: _multi_path(n, False), expect_classes=[1], timeout_ms=60000)]
    m = merge_runs(runs)
    m["sample"] = {"payload": f"{n} symbolic bytes", "encoded text length": L, "max_size_per_chunk": "symbolic in [1,2000]"}
    return m


def _arrange_path(n, y, seq, warm=False):
    be, bc = mods()
    use_polymod("fold")
    d = SBytes.sym("d", n) if n else SBytes.sym("d", 0)
    d = norm(d)
    L = _text_len(n)
    s = _chunk_size_for(L, y)
    wit = lambda env: {"scenario": "arrange", "d": bytes_env(env, "d", n).hex(), "s": s, "seq": list(seq), "warm": warm}  # noqa
    obj, parts = _send_multi(bc, d, s)
    if len(parts) != y:
        check(False, "number of parts", witness=wit)
        return "bad-parts"
    if warm:
        _warm(bc, parts, pairs=[(obj.encoded, obj.enc_hash)])
    got = [parts[i] for i in seq]
    st, back = _recv(bc.BCURMulti.parse, got)
    legit = list(seq) == list(range(y))
    if st != "ok":
        check(not legit, f"the complete in-order sequence is rejected ({back})", witness=wit)
        return "rejected"
    # what the receiver hashed: the bytes behind the joined payload text
    joined = sx_sjoin("", [seam_helper(p)[0] for p in got])
    syms = [be.BECH32_ALPHABET.find(c) for c in joined][:-6]
    body, _ = spec_5to8(syms)
    inj = _inj(spec_cbor(d), norm(SBytes(body))) if body is not None else True
    check(s_implies(inj, _bytes_eq(back.text_b64.b, d)),
          "a re-ordered / incomplete / repeated sequence of parts is accepted and yields a different payload", witness=wit)
    if not legit:
        check(s_not(inj), "a re-ordered / incomplete / repeated sequence of parts is accepted", witness=wit)
    return "ok"


def ob_bcur_arrange(n, y, warm=False):
    import itertools
    runs = []
    seqs = [q for k in range(0, y + 1) for q in itertools.product(range(y), repeat=k)]
    for seq in seqs:
        runs.append(sym_run(lambda: _arrange_path(n, y, seq, warm), timeout_ms=60000, min_checks=0))
    m = merge_runs(runs)
    m["sample"] = {"payload": f"{n} symbolic bytes", "parts": y, "sequences": len(seqs), "example": "[0, 2, 1]"}
    if "'ok'" not in m["classes"] or "'rejected'" not in m["classes"]:
        m["inconclusive"].append("reachability twin: accept / reject classes not both reached")
    m["inconclusive"] = [x for x in m["inconclusive"] if "no assertion" not in x]
    return m


def _headers_path(n, y, warm=False):
    be, bc = mods()
    use_polymod("fold")
    d = norm(SBytes.sym("d", n))
    L = _text_len(n)
    s = _chunk_size_for(L, y)
    obj, parts = _send_multi(bc, d, s)
    legit = [seam_helper(p) for p in parts]
    xs = [SI.var(f"x{i}", 0, 5) for i in range(y)]
    ys = [SI.var(f"y{i}", 0, 5) for i in range(y)]
    cs = [SStr.sym(f"c{i}", 58) for i in range(y)]

    def wit(env):
        return {"scenario": "headers", "d": bytes_env(env, "d", n).hex(), "s": s, "warm": warm,
                "hdr": [[env[f"x{i}"], env[f"y{i}"],
                         "GENUINE" if _model_true(cs[i] == obj.enc_hash) else _text_of(env, f"c{i}", 58, cased=False)] for i in range(y)]}
    got = [Part(legit[i][0], cs[i], xs[i], ys[i]) for i in range(y)]
    if warm:
        _warm(bc, parts, pairs=[(obj.encoded, obj.enc_hash)])
    st, back = _recv(bc.BCURMulti.parse, got)
    inorder = s_and(*[xs[i] == i + 1 for i in range(y)])
    same_c = s_and(*[cs[i] == cs[0] for i in range(1, y)]) if y > 1 else True
    same_y = s_and(*[ys[i] == ys[0] for i in range(1, y)]) if y > 1 else True
    genuine = cs[0] == obj.enc_hash
    if st == "ok":
        check(inorder, "parts accepted although the x positions are not 1..k in order", witness=wit)
        check(same_c, "parts accepted although their checksum fields differ", witness=wit)
        check(same_y, "parts accepted although their y fields differ", witness=wit)
        check(genuine, "parts accepted although the checksum text is not the digest of the payload", witness=wit)
        check(_bytes_eq(back.text_b64.b, d), "accepted parts yield a different payload", witness=wit)
        return "ok"
    wellformed = s_and(inorder, same_c, same_y, genuine, ys[0] >= y)
    check(s_not(wellformed), f"in-order parts with the genuine checksum and one y >= count are rejected ({back})", witness=wit)
    return "rejected"


def ob_bcur_headers(n, y, warm=False):
    r = sym_run(lambda: _headers_path(n, y, warm), timeout_ms=60000, expect_classes=["ok", "rejected"])
    r["sample"] = {"payload": f"{n} symbolic bytes", "parts": y, "x_i, y_i": "symbolic in [0,5]", "checksum_i": "58 symbolic bech32 characters each"}
    return r


def _foreign_path(n, y, j, warm=False):
    be, bc = mods()
    use_polymod("fold")
    d = norm(SBytes.sym("d", n))
    e = norm(SBytes.sym("e", n))
    L = _text_len(n)
    s = _chunk_size_for(L, y)
    wit = lambda env: {"scenario": "foreign", "d": bytes_env(env, "d", n).hex(), "d2": bytes_env(env, "e", n).hex(), "s": s, "j": j, "warm": warm}  # noqa
    _, parts = _send_multi(bc, d, s)
    _, parts2 = _send_multi(bc, e, s)
    if warm:
        _warm(bc, parts, parts2)
    got = list(parts)
    got[j] = parts2[j]
    st, back = _recv(bc.BCURMulti.parse, got)
    if st != "ok":
        check(True, "rejected")
        return "rejected"
    joined = sx_sjoin("", [seam_helper(p)[0] for p in got])
    syms = [be.BECH32_ALPHABET.find(c) for c in joined][:-6]
    body, _ = spec_5to8(syms)
    inj = _inj(spec_cbor(d), spec_cbor(e), norm(SBytes(body)))
    check(s_implies(inj, _bytes_eq(back.text_b64.b, d)), "a part taken from another payload is accepted and the result is not the original payload",
          witness=wit)
    return "ok"


def ob_bcur_foreign(n, y, warm=False):
    runs = [sym_run(lambda: _foreign_path(n, y, j, warm), timeout_ms=60000) for j in range(y)]
    m = merge_runs(runs)
    m["sample"] = {"payloads": f"two symbolic {n}-byte payloads", "parts": y, "swapped": "each position in turn"}
    if "'ok'" not in m["classes"] or "'rejected'" not in m["classes"]:
        m["inconclusive"].append("reachability twin: accept (identical payloads) / reject classes not both reached")
    return m


def _tamper_path(n, dl, warm=False):
    be, bc = mods()
    use_polymod("fold")
    d = norm(SBytes.sym("d", n))
    L = _text_len(n)
    enc, enc_hash = bc.bcur_encode(d)
    P = SStr.sym("p", L + dl)
    def wit(env):
        ok = _model_true(be.bech32_polymod([0] + [c.sym for c in P.items]) == BC32_CONST)
        return {"scenario": "tamper", "d": bytes_env(env, "d", n).hex(), "payload": _text_of(env, "p", L + dl, cased=False), "chk_valid": ok,
                "warm": warm}
    if warm:
        _warm(bc, pairs=[(enc, enc_hash)])
    st, r = _recv(bc.bcur_decode, P, enc_hash)
    if st != "ok":
        check(True, "rejected")
        return "rejected"
    body, _ = spec_5to8([c.sym for c in P.items][:-6])
    inj = _inj(spec_cbor(d), norm(SBytes(body))) if body is not None else True
    check(s_implies(inj, _bytes_eq(r, d)), "a payload text that does not match the digest is accepted and yields different data", witness=wit)
    # ... and what was accepted IS an encoding of the payload the digest commits to (a corrupted text is refused, not silently
    # mapped to the data seen earlier)
    check(body is not None and s_implies(inj, _bytes_eq(norm(SBytes(body)), spec_cbor(d))),
          "a payload text whose bytes are not the CBOR item the digest commits to is accepted", witness=wit)
    return "ok"


def ob_bcur_tamper(n, warm=False):
    runs = [sym_run(lambda: _tamper_path(n, dl, warm), timeout_ms=60000) for dl in (0, -1, 1)]
    m = merge_runs(runs)
    m["sample"] = {"payload": f"{n} symbolic bytes", "received text": "every string of bech32 characters of the genuine length and +-1, genuine digest"}
    if "'ok'" not in m["classes"] or "'rejected'" not in m["classes"]:
        m["inconclusive"].append("reachability twin: accept (the genuine text) / reject classes not both reached")
    return m


def replay_bcur(w):
    """run the scenario on the native code with real base64 / SHA-256"""
    from buidl import bcur
    from base64 import b64encode
    from binascii import a2b_base64
    d = bytes.fromhex(w["d"])
    sc = w["scenario"]
    b64 = b64encode(d).decode()

    def data_of(obj):
        return a2b_base64(obj.text_b64)

    def attempt(fn, *a):
        try:
            r = fn(*a)
        except Exception as ex:
            return None, repr(ex)[:120]
        return r, None
    if sc == "single":
        obj = bcur.BCURSingle(text_b64=b64)
        text = obj.encode(use_checksum=w["use_checksum"])
        want = f"ur:bytes/{obj.enc_hash}/{obj.encoded}" if w["use_checksum"] else f"ur:bytes/{obj.encoded}"
        cb = spec_cbor(d)
        import hashlib
        bad = obj.encoded != spec_bc32encode(cb) or obj.enc_hash != spec_bc32encode(hashlib.sha256(cb).digest()) or text != want
        back, err = attempt(bcur.BCURSingle.parse, text)
        r1, e1 = attempt(bcur.bcur_decode, obj.encoded, obj.enc_hash)
        r2, e2 = attempt(bcur.bcur_decode, obj.encoded)
        bad = bad or back is None or data_of(back) != d or r1 != d or r2 != d
        return {"violated": bad, "observed": f"single {len(d)} bytes: text {text[:60]}..., parse -> {err or 'ok'}, bcur_decode -> {e1 or r1 == d}/{e2 or r2 == d}"}
    if sc == "tamper":
        enc, enc_hash = bcur.bcur_encode(d)
        if w.get("warm"):
            attempt(bcur.bcur_decode, enc, enc_hash)
            attempt(bcur.bcur_decode, enc)
        if w.get("chk_valid") and len(w["payload"]) >= 6:
            w["payload"] = w["payload"][:-6] + _real_checksum(w["payload"][:-6])
        r, err = attempt(bcur.bcur_decode, w["payload"], enc_hash)
        if r is not None and r == d:
            # accepted with the right data: the text itself must decode (independent regrouping) to the CBOR item of the payload
            syms = [ALPHA.find(c) for c in w["payload"].lower()]
            body = spec_5to8(syms[:-6])[0] if len(syms) >= 6 and min(syms) >= 0 else None
            if body is None or bytes(body) != bytes(spec_cbor(d)):
                return {"violated": True, "observed": f"bcur_decode({w['payload']!r}, genuine digest) returns the payload {d.hex()} although the text "
                                                      f"is not an encoding of it (genuine text {enc!r})" + (" after the genuine text was decoded once" if w.get("warm") else "")}
        return {"violated": r is not None and r != d, "observed": f"bcur_decode({w['payload']!r}, genuine digest) -> {err or r.hex()} (payload {d.hex()})"}
    obj = bcur.BCURMulti(text_b64=b64)
    parts = obj.encode(max_size_per_chunk=w["s"], animate=w.get("animate", True))
    y = len(parts)
    if w.get("warm"):
        attempt(bcur.BCURMulti.parse, list(parts))
        attempt(bcur.bcur_decode, obj.encoded, obj.enc_hash)
        attempt(bcur.bcur_decode, obj.encoded)
        if sc == "foreign":
            attempt(bcur.BCURMulti.parse, bcur.BCURMulti(text_b64=b64encode(bytes.fromhex(w["d2"])).decode()).encode(max_size_per_chunk=w["s"]))
    if sc == "multi":
        cw = replay_chunking({"L": len(obj.encoded), "s": w["s"], "animate": w.get("animate", True)})
        back, err = attempt(bcur.BCURMulti.parse, parts)
        bad = cw["violated"] or back is None or data_of(back) != d or back.encoded != obj.encoded or back.enc_hash != obj.enc_hash
        return {"violated": bad, "observed": f"multi {len(d)} bytes, size {w['s']}: {y} parts; parse -> {err or 'ok'}; chunking: {cw['observed']}"}
    if sc == "arrange":
        got = [parts[i] for i in w["seq"]]
        back, err = attempt(bcur.BCURMulti.parse, got)
        legit = w["seq"] == list(range(y))
        if back is None:
            return {"violated": legit, "observed": f"sequence {w['seq']} of {y} parts rejected: {err}"}
        return {"violated": not legit, "observed": f"sequence {w['seq']} of {y} parts accepted; payload {'unchanged' if data_of(back) == d else 'DIFFERENT'}"}
    if sc == "foreign":
        d2 = bytes.fromhex(w["d2"])
        parts2 = bcur.BCURMulti(text_b64=b64encode(d2).decode()).encode(max_size_per_chunk=w["s"])
        got = list(parts)
        got[w["j"]] = parts2[w["j"]]
        back, err = attempt(bcur.BCURMulti.parse, got)
        return {"violated": back is not None and data_of(back) != d,
                "observed": f"part {w['j'] + 1} taken from payload {d2.hex()}: {err or 'accepted, payload ' + data_of(back).hex()} (original {d.hex()})"}
    if sc == "headers":
        fields = [bcur._parse_bcur_helper(p) for p in parts]
        hd = [[x, yy, obj.enc_hash if c == "GENUINE" else c] for x, yy, c in w["hdr"]]
        got = [f"ur:bytes/{x}of{yy}/{c}/{fields[i][0]}" for i, (x, yy, c) in enumerate(hd)]
        back, err = attempt(bcur.BCURMulti.parse, got)
        inorder = all(h[0] == i + 1 for i, h in enumerate(hd))
        same = all(h[2] == hd[0][2] and h[1] == hd[0][1] for h in hd)
        genuine = hd[0][2] == obj.enc_hash
        if back is not None:
            bad = not (inorder and same and genuine) or data_of(back) != d
            return {"violated": bad, "observed": f"headers {[(h[0], h[1], h[2][:8]) for h in hd]} (genuine checksum {obj.enc_hash[:8]}..) accepted"}
        wellformed = inorder and same and genuine and hd[0][1] >= y
        return {"violated": wellformed, "observed": f"headers {[(h[0], h[1], h[2][:8]) for h in hd]} rejected: {err}"}
    return {"violated": None, "error": "unknown scenario"}


# =============================================================================================== FP lemma (thorough)

def ob_fp_lemma(abits, bbits, timeout_s):
    """ceil(float(a)/float(b)) == -(-a // b): the float division + math.ceil of BCURMulti.encode agrees with the integer reading"""
    import z3
    t0 = time.time()
    a = z3.BitVec("a", 32)
    b = z3.BitVec("b", 32)
    rm = z3.RNE()
    q = z3.fpDiv(rm, z3.fpSignedToFP(rm, a, z3.Float64()), z3.fpSignedToFP(rm, b, z3.Float64()))
    ci = z3.fpToSBV(z3.RTZ(), z3.fpRoundToIntegral(z3.RTP(), q), z3.BitVecSort(32))
    s = z3.Solver()
    s.set("timeout", timeout_s * 1000)
    s.add(z3.ULT(a, 1 << abits), z3.UGE(b, 1), z3.ULT(b, 1 << bbits), ci != z3.UDiv(a + b - 1, b))
    r = str(s.check())
    st = core.Stats()
    st.paths, st.decisions, st.checks = 1, 1, 1
    st.q[r] += 1
    st.solver_s = time.time() - t0
    out = {"engine": "z3/QF_FP", "stats": st.asdict(), "classes": {r: 1}, "violations": [], "inconclusive": [], "wall_s": round(time.time() - t0, 2),
           "sample": {"a": f"< 2^{abits}", "b": f"1 <= b < 2^{bbits}"}, "symbolic": True, "vars": ["a", "b"]}
    if r == "sat":
        m = s.model()
        out["violations"].append({"label": "ceil(float(a)/float(b)) != -(-a//b)", "witness": {"a": m[a].as_long(), "b": m[b].as_long()}, "env": {}})
    elif r != "unsat":
        out["inconclusive"].append(f"FP lemma: solver {r} after {timeout_s}s")
    return out


def replay_fp(w):
    a, b = w["a"], w["b"]
    return {"violated": math.ceil(a / b) != -(-a // b), "observed": f"ceil({a}/{b}) = {math.ceil(a / b)} vs {-(-a // b)}"}



# =============================================================================================== registry

def _groups(xs, k):
    xs = list(xs)
    return [tuple(xs[i:i + k]) for i in range(0, len(xs), k)]


def obligations(tier):
    q = tier == "quick"
    obs = [Ob("O0-tables", ob_tables)]
    # ---- O1 CBOR
    for g in _groups(list(range(0, 26)) + [255, 256] if q else range(0, 301), 14 if q else 50):
        obs.append(Ob("O1-cbor-roundtrip", ob_cbor_rt, {"lengths": g}, replay="cbor_rt"))
    for n in ([65535, 65536] if q else [65535, 65536, 70000]):
        obs.append(Ob("O1-cbor-roundtrip", ob_cbor_rt, {"lengths": (n,)}, replay="cbor_rt"))
    obs.append(Ob("O1-cbor-arbitrary", ob_cbor_any, {"maxn": 6 if q else 7}, replay="cbor_any"))
    # ---- O2 bc32
    top = 40 if q else 64
    symtop = 16 if q else 40
    bg = _groups(range(0, top + 1), 7)
    sg = _groups(range(0, symtop + 1), -(-(symtop + 1) // len(bg)))
    for i, g in enumerate(bg):
        obs.append(Ob("O2-convertbits", ob_convertbits, {"lengths": g, "symlens": sg[i] if i < len(sg) else ()}, replay="convertbits"))
    obs.append(Ob("O2-polymod-fold", ob_polymod_fold, {"maxk": 3 if q else 4}, replay="polymod"))
    for n in range(0, (3 if q else 4) + 1):
        obs.append(Ob("O2-bc32-roundtrip-real", ob_bc32_rt, {"lengths": (n,), "kind": "real"}, replay="bc32_rt"))
    for g in _groups(range(0, top + 1), 3):
        obs.append(Ob("O2-bc32-roundtrip", ob_bc32_rt, {"lengths": g, "kind": "fold"}, replay="bc32_rt"))
    for g in _groups(range(0, (16 if q else 40) + 1), 6):
        obs.append(Ob("O2-bc32-canonical", ob_bc32_canon, {"lengths": g}, replay="bc32_canon"))
    cl = list(range(1, (10 if q else 14) + 1))
    obs.append(Ob("O2-bc32-case", ob_bc32_case, {"lens": tuple(cl[:7]), "badlens": (8,)}, replay="bc32_case"))
    obs.append(Ob("O2-bc32-case", ob_bc32_case, {"lens": tuple(cl[7:]), "badlens": (12,)}, replay="bc32_case"))
    # ---- O2b single / double substitution
    sm = [-(-8 * n // 5) + 6 for n in range(0, (40 if q else 125) + 1)]
    for g in _groups(sm, 6 if q else 9):
        obs.append(Ob("O2b-bc32-substitution", ob_bc32_subst, {"ms": g}, replay="bc32_subst", budget_s=1700))
    for g in _groups([-(-8 * n // 5) + 6 for n in range(0, (12 if q else 30) + 1)], 5):
        obs.append(Ob("O2b-bc32-substitution-pairs", ob_bc32_subst, {"ms": g, "two": True}, replay="bc32_subst", budget_s=1700))
    obs.append(Ob("O2b-polymod-step", ob_bc32_step, {}, replay="bc32_subst"))
    for g in _groups(list(range(6, (26 if q else 46) + 1)), 6):
        obs.append(Ob("O2b-bc32-acceptance", ob_bc32_accept, {"ms": g}, replay="bc32_subst"))
    # ---- O3 BCUR
    Ls = list(range(8, 201)) if q else list(range(8, 401)) + list(range(401, 2001, 27))
    for g in (_groups(Ls, 16) if q else _groups(Ls[:393], 24) + _groups(Ls[393:], 3)):
        obs.append(Ob("O3-chunking", ob_chunking, {"Ls": g}, replay="chunking", budget_s=1700))
    for n in ([0, 1, 5, 23, 24, 40] if q else [0, 1, 5, 23, 24, 40, 64, 255, 256]):
        obs.append(Ob("O3-bcur-roundtrip", ob_bcur_roundtrip, {"n": n}, replay="bcur", budget_s=1700))
    for n, y in ([(0, 2), (5, 3), (24, 2), (40, 3)] if q else [(0, 2), (0, 4), (5, 3), (5, 4), (24, 2), (24, 4), (40, 3), (64, 4), (256, 3)]):
        obs.append(Ob("O3-bcur-arrange", ob_bcur_arrange, {"n": n, "y": y}, replay="bcur", budget_s=1700))
    for n, y in ([(0, 1), (5, 2), (24, 3), (40, 2)] if q else [(0, 1), (0, 3), (5, 2), (5, 3), (24, 3), (40, 2), (64, 3), (256, 2)]):
        obs.append(Ob("O3-bcur-headers", ob_bcur_headers, {"n": n, "y": y}, replay="bcur", budget_s=1700))
    for n, y in ([(1, 2), (5, 2), (24, 3)] if q else [(1, 2), (5, 2), (24, 3), (40, 4), (64, 3), (256, 2)]):
        obs.append(Ob("O3-bcur-foreign", ob_bcur_foreign, {"n": n, "y": y}, replay="bcur", budget_s=1700))
    for n in ([0, 1, 5, 23, 24] if q else [0, 1, 5, 23, 24, 40, 64]):
        obs.append(Ob("O3-bcur-tamper", ob_bcur_tamper, {"n": n}, replay="bcur", budget_s=1700))
    # ---- O3 history: the same attacks after the genuine payload has been received once in the same process
    for n, y in ([(5, 2), (24, 2)] if q else [(0, 2), (5, 3), (24, 2), (40, 3)]):
        obs.append(Ob("O3-history-arrange", ob_bcur_arrange, {"n": n, "y": y, "warm": True}, replay="bcur", budget_s=1700))
    for n, y in ([(5, 2), (24, 3)] if q else [(0, 1), (5, 2), (24, 3), (40, 2)]):
        obs.append(Ob("O3-history-headers", ob_bcur_headers, {"n": n, "y": y, "warm": True}, replay="bcur", budget_s=1700))
    for n, y in ([(5, 2)] if q else [(1, 2), (5, 2), (24, 3)]):
        obs.append(Ob("O3-history-foreign", ob_bcur_foreign, {"n": n, "y": y, "warm": True}, replay="bcur", budget_s=1700))
    for n in ([1, 24] if q else [0, 1, 5, 23, 24]):
        obs.append(Ob("O3-history-tamper", ob_bcur_tamper, {"n": n, "warm": True}, replay="bcur", budget_s=1700))
    if not q:
        obs.append(Ob("FP-ceil-lemma", ob_fp_lemma, {"abits": 12, "bbits": 8, "timeout_s": 1200}, replay="fp", budget_s=1500))
    return obs
