"""C09 — text encodings: Base58 / Base58Check, WIF, Bech32 / Bech32m segwit addresses, address <-> scriptPubKey
(DESIGN.md section 3, C09).

The real functions of buidl/helper.py, bech32.py, script.py, pecc.py and tx.py are run on symbolic payload bytes.  Python
`str` stays concrete in this engine, so text that carries payload symbols is a handle (`Txt`: a sequence of concrete
characters and symbolic characters = digit of an alphabet); the two module globals BASE58_ALPHABET / BECH32_ALPHABET are
swapped for a digit <-> character handle table, and the f-strings / conditional expression of bech32.py are re-pointed by the
source-level transform of checks/c20.py.  Everything between those seams is the unmodified code.

Two rewriting passes sit in front of z3 (DESIGN.md 2.1), each with its lemma re-proved by z3 on every run:
  * Base58: `m*(x div m) + (x mod m) -> x` (core.TELESCOPE_DIVMOD) plus interval analysis over exact value ranges; the
    division chains that remain go to z3 as fresh quotient / remainder integers (core.LIA_FRESH_DIVMOD);
  * Bech32: XOR-affine normal form of the real bech32_polymod (symx/anf.py, DAG pass).
"""
import hashlib

import checks.c20 as c20   # noqa: F401  (import first: registers loader.PATCHES for sbuidl.bech32 = f-string seams + if-conversion)
from symx import core, loader, shims, anf
from symx.core import (SI, SBytes, check, assume, s_and, s_or, s_not, s_ite, norm, wrap, lift, bytes_env, conc_value, Out)
from vlib.run import Ob, sym_run, merge_runs, conc_run

PROPERTY = "C09"

META = {
    "bounds": {
        "quick": {
            "base58": "every byte string of length n+4 for n in {1,2,5,21,33,34,78} (payload + 4 checksum bytes; every leading-zero run "
                      "0..n+4 and every value of the remaining bytes): encode_base58 text against the positional specification, "
                      "raw_decode_base58(encode_base58(X)) accepted exactly when X[-4:] == hash256(X[:-4])[:4] and then returns X[:-4]; "
                      "encode_base58_checksum(raw) == encode_base58(raw + hash256(raw)[:4]) for every raw of those lengths; the whole "
                      "encode_base58_checksum -> raw_decode_base58 chain decided by z3 alone (no rewriting pass) for n in {1,2}",
            "wif": "every secret in [1,N-1] x {compressed, uncompressed} x {mainnet,testnet,signet,regtest}: payload layout and parse; every "
                   "33- and 34-byte payload (version byte, 32 key bytes, suffix all symbolic): accepted exactly when the version byte is "
                   "0x80/0xef, the key is in [1,N-1] and (34 bytes) the suffix is 0x01",
            "segwit": "witness versions 0..16 (version byte symbolic over 0x51..0x60, and 0x00) x program lengths {2,20,32,40} x "
                      "{mainnet,testnet,signet,regtest}, every program: text == BIP173/BIP350 reference, checksum constant, "
                      "decode_bech32(encode_bech32_checksum(spk)) == (network class, version, program)",
            "error detection": "data-part lengths 39 (P2WPKH) and 59 (P2WSH, P2TR) x hrp {bc,tb,bcrt}: affine lemma at that length, "
                               "every position pair (i<j) with every pair of substitution values (e_i,e_j) != (0,0) incl. single "
                               "substitutions and the version character; acceptance predicate of the real decode_bech32 for every "
                               "string of bech32 characters of those lengths (+ a non-alphabet character at every data position)",
            "addresses": "P2PKH / P2SH / P2WPKH / P2WSH / P2TR x 4 networks, every 20- / 32-byte hash: address_to_script_pubkey(spk."
                         "address(net)) == spk and TxOut.to_address(...).script_pubkey == spk"},
        "thorough": {
            "base58": "n in {1,2,3,4,5,20,21,32,33,34,37,38,64,78,82}; z3-only chain for n in {1,2} (n = 3: ~12 min and a timed-out "
                      "feasibility query; n >= 5 does not finish: that is what the rewriting pass is for)",
            "segwit": "program lengths 2..40",
            "error detection": "every data-part length 7+ceil(8n/5) for n in 2..40 x {bc,tb,bcrt}"}},
    "outside": [
        "upper-case / mixed-case segwit addresses (the library refuses upper case outright)",
        "judgement: 'decoding inverts encoding' is read as decode(encode(x)) == x.  Observed and NOT flagged: decode_bech32 ignores "
        "non-zero padding bits, does not check that the witness version is <= 16 nor that a v0 program has 20 or 32 bytes, and for "
        "the regtest prefix never looks at the separator character (s[4]); the separator is not part of the data part",
        "judgement (WIF): PrivateKey.parse returns network 'testnet' for every 0xef key (documented in its docstring) and takes any "
        "payload that is not 34 bytes long as an uncompressed key (a 5-byte payload parses); only 33- and 34-byte payloads are "
        "examined.  wif() ignores self.compressed (its parameter decides); the round trip uses parse(w).wif(parse(w).compressed)",
        "encode_base58(b'') raises ValueError (int('', 16)); Base58Check never produces an empty byte string",
        "judgement (signet): signet shares the hrp 'tb' and the Base58 version bytes of testnet; the decoded network class is "
        "compared ('mainnet' / 'testnet' / 'regtest' by hrp)",
        "base-58 strings that are not the encoding of a byte string of the listed lengths; non-alphabet characters in Base58 text",
        "correctness of SHA-256 / RIPEMD-160 themselves"],
    "stubs": [
        "text seams: BASE58_ALPHABET and BECH32_ALPHABET replaced by a digit <-> character handle table (the real tables are "
        "checked concretely to be 58 / 32 distinct characters); f-strings of bech32.py rewritten to a handle-preserving builder",
        "hash256 in buidl/helper.py is an uninterpreted function (32 byte-valued functions of the input), also on concrete input",
        "Base58 rewriting pass: m*(x div m) + (x mod m) is rebuilt as x while the real decoder runs (lemma O1-divmod-lemma, z3); "
        "inputs are given as the big-endian bytes of one integer variable per exact value range [max(256^(m-1), 58^(K-1)), "
        "min(256^m, 58^K) - 1] (the ranges partition all byte strings), so that loop counts are decided by interval analysis",
        "bech32_polymod: `GEN[i] if bit else 0` is if-converted (checks/c20.py transform); in O3/O5 its result is passed through the "
        "XOR-affine normaliser symx/anf.py (cross-checked against z3 and the native function in O4-anf-crosscheck); in "
        "O4-acceptance it is replaced by an arbitrary 30-bit value P and its argument list is recorded (the real polymod is "
        "analysed separately in O4-syndromes)",
        "PrivateKey.__init__ computes secret * G: G in the sbuidl.pecc namespace is an object whose __rmul__ returns a dummy point; "
        "in O2 the Base58Check layer (encode_base58_checksum / raw_decode_base58 as imported into pecc) is an identity carrier "
        "(covered by O1)",
        "O5 Base58 addresses: composed from (a) address() == encode_base58_checksum(version byte + hash) with the encoder "
        "recorded, (b) O1-checksum-layout, (c) address_to_script_pubkey / TxOut.to_address on encode_base58(X) for every 25-byte X "
        "with that version byte", "print() empty"],
    "assumptions": [
        "hash256 is a function (same input, same output); nothing else about it",
        "GF(2) linearity argument of O4: a substituted character is a non-zero XOR difference of its 5-bit symbol (ALPHABET is a "
        "bijection, checked concretely), so 'at most two substituted characters' = error pattern with at most two non-zero symbols"],
}

MANIFEST = {"technique": "symbolic execution of the real Base58 / Bech32 / WIF / address functions on symbolic bytes with text carried as "
                         "digit handles; integer (LIA) lowering with a div/mod telescoping pass for Base58; XOR-affine normal form of the "
                         "real bech32_polymod, then one z3 query per position pair over the substitution values; z3 decides every path"}

B58 = "123456789ABCDEFGHJKLMNPQRSTUVWXYZabcdefghijkmnopqrstuvwxyz"
B32 = "qpzry9x8gf2tvdw0s3jn54khce6mua7l"
GEN_REF = (0x3B6A57B2, 0x26508E6D, 0x1EA119FA, 0x3D4233DD, 0x2A1462B3)     # BIP173
BECH32M = 0x2BC830A3                                                       # BIP350
CSWITCH = 1 ^ BECH32M
HRP = {"mainnet": "bc", "testnet": "tb", "signet": "tb", "regtest": "bcrt"}
NETCLASS = {"bc": "mainnet", "tb": "testnet", "bcrt": "regtest"}
NETS = ("mainnet", "testnet", "signet", "regtest")
N_SECP = 0xFFFFFFFFFFFFFFFFFFFFFFFFFFFFFFFEBAAEDCE6AF48A03BBFD25E8CD0364141


# =============================================================================================== text handles

class Ch:
    """one symbolic character: alpha[d]"""
    __slots__ = ("alpha", "d")

    def __init__(self, alpha, d):
        self.alpha = alpha
        self.d = d


def ch_eq(a, b):
    if isinstance(a, str) and isinstance(b, str):
        return a == b
    if isinstance(a, str):
        a, b = b, a
    if isinstance(b, str):
        i = a.alpha.find(b)
        if i < 0 or len(b) != 1:
            return False
        return a.d == i
    if a.alpha is not b.alpha:
        raise core.Unsupported("comparison of characters of two alphabets")
    if a.d is b.d or (isinstance(a.d, SI) and isinstance(b.d, SI) and a.d.n is b.d.n):
        return True
    if a.alpha is B32:
        return anf.equal(a.d, b.d)
    return a.d == b.d


class Txt:
    """text handle: list of concrete 1-character strings and Ch"""

    def __init__(self, items):
        self.items = list(items)

    def __len__(self):
        return len(self.items)

    def __bool__(self):
        return len(self.items) > 0

    def __iter__(self):
        for it in self.items:
            yield it if isinstance(it, str) else Txt([it])

    def __getitem__(self, k):
        if isinstance(k, slice):
            return tnorm(Txt(self.items[k]))
        it = self.items[k]
        return it if isinstance(it, str) else Txt([it])

    def __add__(self, o):
        if isinstance(o, str):
            return Txt(self.items + list(o))
        if isinstance(o, Txt):
            return Txt(self.items + o.items)
        return NotImplemented

    def __radd__(self, o):
        if isinstance(o, str):
            return Txt(list(o) + self.items)
        return NotImplemented

    def _eq(self, o):
        if isinstance(o, str):
            o = list(o)
        elif isinstance(o, Txt):
            o = o.items
        else:
            return False
        if len(o) != len(self.items):
            return False
        conds = []
        for a, b in zip(self.items, o):
            c = ch_eq(a, b)
            if c is False:
                return False
            conds.append(c)
        return s_and(*conds) if conds else True

    def __eq__(self, o):
        return self._eq(o)

    def __ne__(self, o):
        return s_not(self._eq(o))

    def __hash__(self):
        # consistent with ==: fully concrete texts hash like the str they equal; texts with symbolic characters all hash alike, so
        # that set / dict look-ups among them are decided by == (which forks).  A look-up of a symbolic text against *concrete* str
        # keys of the same container is not modelled: the path set is marked inconclusive (the unchanged library never hashes these).
        if all(isinstance(i, str) for i in self.items):
            return hash("".join(self.items))
        if core.CTX is not None:
            note = ("a text handle with symbolic characters was hashed (set/dict key): compared by equality with other handles only; "
                    "look-ups against concrete str keys of the same container are not modelled")
            if note not in core.CTX.inconclusive:
                core.CTX.inconclusive.append(note)
        return 0x5159

    def startswith(self, p):
        if isinstance(p, tuple):
            return any(self.startswith(x) for x in p)
        if len(p) > len(self.items):
            return False
        return bool(Txt(self.items[:len(p)])._eq(p))

    def split(self, sep):
        out, cur = [], []
        for it in self.items:
            if isinstance(it, str) and it == sep:
                out.append(tnorm(Txt(cur)))
                cur = []
            else:
                # a symbolic character is a character of its alphabet; the separator "1" is not a bech32 character
                if not isinstance(it, str) and it.alpha.find(sep) >= 0:
                    raise core.Unsupported("split on a character of the symbolic alphabet")
                cur.append(it)
        out.append(tnorm(Txt(cur)))
        return out

    def lower(self):
        if any(isinstance(i, str) and i != i.lower() for i in self.items):
            return Txt([i.lower() if isinstance(i, str) else i for i in self.items])
        return self

    def digits(self):
        """the digit of every character (int for a concrete character of alphabet `alpha`)"""
        return [it.d if isinstance(it, Ch) else None for it in self.items]

    def __repr__(self):
        return f"<sym text len={len(self.items)}>"

    __str__ = __repr__

    def __format__(self, spec):
        return repr(self)


def tnorm(t):
    if isinstance(t, Txt) and all(isinstance(i, str) for i in t.items):
        return "".join(t.items)
    return t


def tlist(t):
    return list(t) if isinstance(t, str) else list(t.items)


def sx_fstr(*parts):
    out = []
    for p in parts:
        if isinstance(p, str):
            out.append(p)
        else:
            v, conv, spec = p
            out.append(repr(v) if conv == ord("r") else format(v, spec or ""))
    return "".join(out)


def sx_sjoin(sep, parts):
    parts = list(parts)
    if all(isinstance(p, str) for p in parts):
        return sep.join(parts)
    items = []
    for k, p in enumerate(parts):
        if k:
            items.extend(list(sep))
        items.extend(tlist(p))
    return tnorm(Txt(items))


class Alpha:
    """stands for BASE58_ALPHABET / BECH32_ALPHABET: indexing by a symbolic digit gives a character handle, index()/find() of a
    handle gives the digit back; concrete arguments go to the real string"""

    def __init__(self, real, key):
        self.real = real
        self.key = key     # the harness constant (B58 / B32) the handles refer to

    def __getitem__(self, d):
        if isinstance(d, SI):
            if d.lo >= 0 and d.hi < len(self.real):
                return Txt([Ch(self.key, d)])
            return self.real[core.concretize(d)]
        return self.real[d]

    def _digit(self, c):
        if isinstance(c, Txt) and len(c.items) == 1 and isinstance(c.items[0], Ch):
            if c.items[0].alpha is not self.key:
                raise core.Unsupported("character of another alphabet")
            return c.items[0].d
        return None

    def index(self, c):
        d = self._digit(c)
        return d if d is not None else self.real.index(tnorm(c))

    def find(self, c):
        d = self._digit(c)
        return d if d is not None else self.real.find(tnorm(c))

    def __contains__(self, c):
        return True if self._digit(c) is not None else (tnorm(c) in self.real)

    def __len__(self):
        return len(self.real)

    def __iter__(self):
        return iter(self.real)

    def __str__(self):
        return self.real


# =============================================================================================== modules and seams

_S = {}


def uf_hash256(data):
    """hash256 as 32 uninterpreted byte-valued functions of the input (also for concrete input: a symbolic payload whose bytes
    are pinned by the path condition must hash to the same symbol as the concrete bytes the decoder rebuilds)"""
    data = norm(data) if isinstance(data, SBytes) else data
    L = len(data)
    for i in range(32):
        name = f"hash256b{i}_{L}"
        if name not in core.UF_IMPL:
            core.UF_IMPL[name] = lambda v, L=L, i=i: hashlib.sha256(hashlib.sha256(v.to_bytes(L, "big")).digest()).digest()[i]
    arg = core.n_cat([lift(i) for i in data])
    return norm(SBytes([wrap(core.n_uf(f"hash256b{i}_{L}", 8, [arg], widths=(max(8 * L, 1),))) for i in range(32)]))


def H4(x):
    return uf_hash256(x)[:4]


class DummyG:
    """stands for the generator in sbuidl.pecc: secret * G is not computed (C03 covers the group)"""

    def __rmul__(self, k):
        return ("point", k)


class B58Carrier:
    """identity carrier for the Base58Check layer in O2 / O5(a): the text of a payload, opaque"""

    def __init__(self, raw):
        self.raw = raw

    def __repr__(self):
        return "<base58check text>"

    def __format__(self, spec):
        return repr(self)


def mods():
    if "h" in _S:
        return _S
    h = loader.load("helper")
    be = loader.load("bech32")
    for k, v in (("__sx_fstr__", sx_fstr), ("__sx_sjoin__", sx_sjoin), ("__sx_ite__", c20.sx_ite)):
        be.__dict__[k] = v
    _S["real_b58"] = h.BASE58_ALPHABET
    _S["real_b32"] = be.BECH32_ALPHABET
    if h.BASE58_ALPHABET != B58 or be.BECH32_ALPHABET != B32:
        raise core.Unsupported("alphabet tables differ from the harness copies")
    h.BASE58_ALPHABET = Alpha(h.BASE58_ALPHABET, B58)
    be.BECH32_ALPHABET = Alpha(be.BECH32_ALPHABET, B32)
    _S["real_hash256"] = h.hash256
    h.hash256 = uf_hash256
    _S["real_pm"] = be.bech32_polymod
    _S["real_encode_base58"] = h.encode_base58
    _S["h"], _S["be"] = h, be
    return _S


def use_polymod(kind, probe=None):
    S = mods()
    be = S["be"]
    real = S["real_pm"]
    if kind == "real":
        be.bech32_polymod = real
    elif kind == "norm":
        be.bech32_polymod = lambda values: anf.normalize(real(list(values)), 30)
    else:
        be.bech32_polymod = probe
    return real


# =============================================================================================== specifications (plain Python; run on proxies and on ints / bytes)

def spec_b58encode(b):
    """Base58: leading zero bytes -> '1's, the rest the base-58 digits of the big-endian integer (concrete)"""
    z = len(b) - len(b.lstrip(b"\x00"))
    v = int.from_bytes(b, "big")
    out = ""
    while v:
        v, r = divmod(v, 58)
        out = B58[r] + out
    return "1" * z + out


def spec_b58decode(s):
    z = len(s) - len(s.lstrip("1"))
    v = 0
    for c in s:
        v = v * 58 + B58.index(c)
    return bytes(z) + (v.to_bytes((v.bit_length() + 7) // 8, "big") if v else b"")


def real_hash256(b):
    return hashlib.sha256(hashlib.sha256(b).digest()).digest()


def spec_polymod(values):
    """BIP173 checksum polynomial with the reference generator constants (runs on proxies and on ints)"""
    c = 1
    for v in values:
        top = c >> 25
        c = ((c & 0x1FFFFFF) << 5) ^ v
        for i in range(5):
            c = c ^ s_ite(((top >> i) & 1) != 0, GEN_REF[i], 0)
    return c


def spec_hrp_expand(hrp):
    return [ord(c) >> 5 for c in hrp] + [0] + [ord(c) & 31 for c in hrp]


def spec_segwit_symbols(hrp, v, prog, const):
    """BIP173 / BIP350 encoder: data-part symbols of the address of witness version v / program prog"""
    data = [v] + c20.spec_8to5(prog)
    pm = spec_polymod(spec_hrp_expand(hrp) + data + [0] * 6) ^ const
    return data + [(pm >> 5 * (5 - i)) & 31 for i in range(6)]


def spec_segwit_encode(hrp, v, prog):
    syms = spec_segwit_symbols(hrp, v, prog, 1 if v == 0 else BECH32M)
    return hrp + "1" + "".join(B32[s] for s in syms)


def sym_text(alpha, digits):
    return tnorm(Txt([alpha[d] if isinstance(d, int) else Ch(alpha, d) for d in digits]))


def text_digits(t, alpha):
    return [alpha.find(it) if isinstance(it, str) else it.d for it in tlist(t)]


def model_true(cond):
    if isinstance(cond, bool):
        return cond
    c = core.ctx()
    return bool(core.model_bool(c.model, core.lbool(cond), c.mode))


# =============================================================================================== O0 trusted base

def ob_tables():
    def f():
        hn, bn = loader.native("helper"), loader.native("bech32")
        ok = hn.BASE58_ALPHABET == B58 and len(set(B58)) == 58 and bn.BECH32_ALPHABET == B32 and len(set(B32)) == 32 and B32 == B32.lower()
        ok = ok and "1" not in B32 and B58[0] == "1" and bn.PREFIX == HRP and bn.NET_FOR_PREFIX == NETCLASS
        ok = ok and all(spec_hrp_expand(x) == bn.bech32_hrp_expand(x) for x in ("bc", "tb", "bcrt"))
        return ok, "BASE58_ALPHABET / BECH32_ALPHABET are the 58 / 32 character bijections the handles stand for; PREFIX table; hrp expansion"
    return conc_run(f, "alphabet tables and network prefixes (concrete)")


# =============================================================================================== O1 Base58 / Base58Check

def value_ranges(lo, hi, digit_cuts=False):
    """partition of [lo, hi] at the powers of 58 (and, with digit_cuts, at the multiples of the leading power: constant top digit)"""
    cuts = {lo}
    p = 58
    while p <= hi:
        if p > lo:
            cuts.add(p)
        p *= 58
    if digit_cuts:
        p = 1
        while p * 58 <= lo:
            p *= 58
        while p <= hi:
            for k in range(1, 58):
                if lo < k * p <= hi:
                    cuts.add(k * p)
            p *= 58
    cuts = sorted(cuts)
    return [(cuts[i], (cuts[i + 1] - 1 if i + 1 < len(cuts) else hi)) for i in range(len(cuts))]


def b58_cases(n, first=None, digit_cuts=False):
    """(leading zero bytes z, lo, hi): the byte strings of length n [with first byte `first`] = z zero bytes then the (n-z)-byte
    big-endian form of a value in [lo, hi] whose top byte is not zero; (n, None, None) is the all-zero string"""
    out = []
    if first not in (None, 0):
        for (a, b) in value_ranges(first * 256 ** (n - 1), (first + 1) * 256 ** (n - 1) - 1, digit_cuts):
            out.append((0, a, b))
        return out
    for z in range(1 if first == 0 else 0, n + 1):
        m = n - z
        if m == 0:
            out.append((z, None, None))
        else:
            for (a, b) in value_ranges(256 ** (m - 1), 256 ** m - 1, digit_cuts):
                out.append((z, a, b))
    return out


def mk_bytes(name, n, z, a, b):
    m = n - z
    if m == 0:
        return bytes(n), None
    v = SI.var(name, a, b)
    return bytes(z) + v.to_bytes(m, "big"), v


def _b58_flags(telescope):
    core.LIA_FRESH_DIVMOD[0] = True
    core.TELESCOPE_DIVMOD[0] = telescope


def _b58_case_path(n, z, a, b, tag):
    S = mods()
    h = S["h"]
    X, v = mk_bytes(f"v{tag}", n, z, a, b)

    def wit(env):
        x = conc_value(X, env) if v is not None else X
        return {"kind": "b58", "x": bytes(x).hex(), "valid": model_true(valid) if v is not None else None}
    valid = (X[-4:] == H4(X[:-4])) if n >= 4 else False
    t = h.encode_base58(X)
    # ---- the text against the positional specification
    items = tlist(t)
    check(all(c == "1" for c in items[:z]) and len(items) >= z, "encode_base58: one '1' per leading zero byte", witness=wit)
    ds = text_digits(t, B58)[z:]
    if v is not None:
        acc = 0
        for d in ds:
            acc = 58 * acc + d
        check(len(ds) >= 1 and (ds[0] != 0), "encode_base58: the digit string after the '1's must not start with digit 0", witness=wit)
        check(acc == v, "encode_base58: the digits are not the base-58 expansion of the integer", witness=wit)
    else:
        check(len(ds) == 0, "encode_base58 of zero bytes is not just '1's", witness=wit)
    # ---- decoding
    try:
        back = h.raw_decode_base58(t)
    except RuntimeError:
        check(s_not(valid), "raw_decode_base58 refuses a string whose 4-byte checksum matches", witness=wit)
        return "reject"
    check(valid, "raw_decode_base58 accepts a string whose 4-byte checksum does not match", witness=wit)
    check((len(back) == n - 4) and (back == X[:-4]), "raw_decode_base58(encode_base58(payload + checksum)) != payload", witness=wit)
    if n >= 5:
        try:
            b1 = h.decode_base58(t)
            check((len(b1) == n - 5) and (b1 == X[1:-4]), "decode_base58 is not raw_decode_base58 without the version byte", witness=wit)
        except RuntimeError:
            check(False, "decode_base58 refuses what raw_decode_base58 accepts", witness=wit)
    return "accept"


def ob_b58(n, zlo, zhi):
    _b58_flags(True)
    runs = []
    for k, (z, a, b) in enumerate(c for c in b58_cases(n) if zlo <= c[0] <= zhi):
        core.reset_int_lowering()   # each value range has its own variable: do not carry the previous ranges' quotient definitions
        runs.append(sym_run(lambda: _b58_case_path(n, z, a, b, f"{n}_{k}"), mode="int", timeout_ms=60000))
    m = merge_runs(runs)
    m["sample"] = {"bytes": f"{n - 4}-byte payload + 4 checksum bytes", "leading zero bytes": f"{zlo}..{zhi}",
                   "value ranges": len(runs), "example range": "[256^(m-1), 58^K - 1] and [58^K, 256^m - 1]"}
    if "'accept'" not in m["classes"] and zlo == 0 and n >= 4:
        m["inconclusive"].append("reachability twin: no accepting path")
    return m


def replay_b58(w):
    from buidl import helper
    x = bytes.fromhex(w["x"])
    if w.get("valid") is True and len(x) >= 4:
        x = x[:-4] + real_hash256(x[:-4])[:4]
    elif w.get("valid") is False and len(x) >= 4 and x[-4:] == real_hash256(x[:-4])[:4]:
        x = x[:-1] + bytes([x[-1] ^ 1])
    t = helper.encode_base58(x)
    want = spec_b58encode(x)
    err = ""
    try:
        back = helper.raw_decode_base58(t)
    except Exception as ex:
        back = None
        err = repr(ex)[:80]
    valid = len(x) >= 4 and x[-4:] == real_hash256(x[:-4])[:4]
    bad = t != want or (valid and back != x[:-4]) or (not valid and back is not None)
    return {"violated": bad, "observed": f"encode_base58({x.hex()}) = {t!r} (reference {want!r}); checksum {'matches' if valid else 'does not match'}; "
                                         f"raw_decode_base58 -> {back.hex() if back is not None else 'rejected ' + err}"}


def _b58_layout_path(n):
    """encode_base58_checksum(raw) == encode_base58(raw + hash256(raw)[:4])"""
    S = mods()
    h = S["h"]
    raw = SBytes.sym("r", n) if n else b""
    seen = []
    h.encode_base58 = lambda s: (seen.append(s), B58Carrier(s))[1]
    try:
        t = h.encode_base58_checksum(raw)
    finally:
        h.encode_base58 = S["real_encode_base58"]
    want = raw + H4(raw)
    wit = lambda env: {"kind": "b58layout", "raw": bytes_env(env, "r", n).hex()}  # noqa
    check(len(seen) == 1 and isinstance(t, B58Carrier) and (len(seen[0]) == n + 4) and (seen[0] == want),
          "encode_base58_checksum(raw) is not encode_base58(raw + hash256(raw)[:4])", witness=wit)
    return "ok"


def ob_b58_layout(lengths):
    _b58_flags(True)
    runs = [sym_run(lambda: _b58_layout_path(n), mode="int") for n in lengths]
    m = merge_runs(runs)
    m["sample"] = {"raw": "symbolic bytes", "lengths": list(lengths)}
    return m


def replay_b58layout(w):
    from buidl import helper
    raw = bytes.fromhex(w["raw"])
    got = helper.encode_base58_checksum(raw)
    want = spec_b58encode(raw + real_hash256(raw)[:4])
    return {"violated": got != want, "observed": f"encode_base58_checksum({raw.hex()}) = {got!r}, Base58Check reference {want!r}"}


def _divmod_lemma_path(kind):
    """the rewriting rule of core.TELESCOPE_DIVMOD, decided by z3 with the rule switched off"""
    x = SI.var("x", 0, 256 ** 90)
    if kind == "general":
        e = 58 * (x // 58) + x % 58
        check(e == x, "58*(x div 58) + (x mod 58) == x", witness=lambda env: {"kind": "lemma", "x": env["x"]})
    else:
        c = SI.var("c", 0, 256 ** 88)
        assume(s_and(x >= 58 * c, x <= 58 * c + 57))
        e = 58 * c + x % 58
        check(e == x, "58*c + (x mod 58) == x when x div 58 == c", witness=lambda env: {"kind": "lemma", "x": env["x"]})
    # and the loop-exit fact the interval analysis uses: x div 58 == 0 implies x mod 58 == x
    y = SI.var("y", 0, 57)
    check((y % 58 == y) if not isinstance(y % 58, int) else True, "x < 58 implies x mod 58 == x")
    return "ok"


def ob_divmod_lemma():
    _b58_flags(False)
    runs = [sym_run(lambda: _divmod_lemma_path(k), mode="int") for k in ("general", "constant quotient")]
    m = merge_runs(runs)
    m["sample"] = {"x": "symbolic in [0, 256^90]"}
    return m


def replay_lemma(w):
    x = w["x"]
    return {"violated": 58 * (x // 58) + x % 58 != x, "observed": f"x = {x}"}


def _b58_direct_path(n):
    """no rewriting pass: encode_base58_checksum -> raw_decode_base58 on plain symbolic bytes, z3 (LIA) decides everything"""
    S = mods()
    h = S["h"]
    raw = SBytes.sym("d", n)
    wit = lambda env: {"kind": "b58", "x": (bytes_env(env, "d", n) + bytes(4)).hex(), "valid": True}  # noqa
    t = h.encode_base58_checksum(raw)
    try:
        back = h.raw_decode_base58(t)
    except RuntimeError:
        check(False, "raw_decode_base58(encode_base58_checksum(raw)) is refused", witness=wit)
        return "reject"
    check((len(back) == n) and (back == raw), "raw_decode_base58(encode_base58_checksum(raw)) != raw", witness=wit)
    return "accept"


def ob_b58_direct(n):
    _b58_flags(False)
    r = sym_run(lambda: _b58_direct_path(n), mode="int", timeout_ms=120000, expect_classes=["accept"])
    r["sample"] = {"raw": f"{n} symbolic bytes", "decided by": "z3 alone (integer arithmetic with fresh quotients), no rewriting pass"}
    return r


# =============================================================================================== O2 WIF

def _pecc():
    S = mods()
    if "pe" not in S:
        pe = loader.load("pecc")
        pe.G = DummyG()
        pe.encode_base58_checksum = lambda raw: B58Carrier(raw)
        pe.raw_decode_base58 = lambda t: t.raw
        S["pe"] = pe
    return S["pe"]


def spec_wif_payload(secret, mainnet, compressed):
    """WIF payload: version byte, 32-byte big-endian key, 0x01 when the public key is to be compressed (int or SI secret)"""
    return (b"\x80" if mainnet else b"\xef") + secret.to_bytes(32, "big") + (b"\x01" if compressed else b"")


def _wif_path(network, compressed):
    pe = _pecc()
    secret = SI.var("secret", 1, N_SECP - 1)
    wit = lambda env: {"kind": "wif", "secret": env["secret"], "network": network, "compressed": compressed}  # noqa
    pk = pe.PrivateKey(secret, network=network)
    t = pk.wif(compressed=compressed)
    want = spec_wif_payload(secret, network == "mainnet", compressed)
    if not check(isinstance(t, B58Carrier) and (len(t.raw) == len(want)) and (t.raw == want),
                 "wif(): payload is not version byte (0x80 mainnet / 0xef otherwise) + 32-byte big-endian secret [+ 0x01]", witness=wit):
        return "layout"
    try:
        back = pe.PrivateKey.parse(t)
    except Exception as ex:
        check(False, f"PrivateKey.parse(wif()) raised {type(ex).__name__}", witness=wit)
        return "raised"
    check(back.secret == secret, "parse(wif()).secret differs", witness=wit)
    check(back.compressed == compressed, "parse(wif()).compressed differs", witness=wit)
    check(back.network == ("mainnet" if network == "mainnet" else "testnet"), "parse(wif()): mainnet / non-mainnet class differs", witness=wit)
    t2 = back.wif(compressed=back.compressed)
    check((len(t2.raw) == len(t.raw)) and (t2.raw == t.raw), "parse(w).wif(parse(w).compressed) != w", witness=wit)
    return Out("ok", t.raw)


def ob_wif():
    natp, nath = loader.native("pecc"), loader.native("helper")

    def native(env, net, comp):
        # the real WIF text of the real key, decoded by the reference Base58Check decoder
        return spec_b58decode(natp.PrivateKey(env["secret"], network=net).wif(compressed=comp))[:-4]
    runs = [sym_run(lambda: _wif_path(net, comp), expect_classes=["ok"], gen_env=lambda rng: {"secret": rng.randrange(1, N_SECP)},
                    native=lambda env, net=net, comp=comp: native(env, net, comp), n_val=2) for net in NETS for comp in (True, False)]
    m = merge_runs(runs)
    m["sample"] = {"secret": "symbolic in [1, N-1]", "networks": list(NETS), "compressed": [True, False]}
    return m


def _wif_parse_path(n):
    pe = _pecc()
    raw = SBytes.sym("w", n)
    wit = lambda env: {"kind": "wifraw", "raw": bytes_env(env, "w", n).hex()}  # noqa
    secret = core.int_from_bytes(raw[1:33], "big")
    ok = s_and(s_or(raw[0] == 0x80, raw[0] == 0xEF), secret >= 1, secret <= N_SECP - 1, (raw[33] == 1) if n == 34 else True)
    try:
        k = pe.PrivateKey.parse(B58Carrier(raw))
    except (ValueError, RuntimeError):
        check(s_not(ok), "PrivateKey.parse refuses a well-formed payload (version 0x80/0xef, key in [1,N-1], suffix 0x01)", witness=wit)
        return "reject"
    check(ok, "PrivateKey.parse accepts a payload with another version byte / a wrong compression marker / a key outside [1,N-1]", witness=wit)
    check(s_and(k.secret == secret, k.compressed == (n == 34), s_ite(raw[0] == 0x80, k.network == "mainnet", k.network == "testnet")),
          "PrivateKey.parse fields", witness=wit)
    t2 = k.wif(compressed=k.compressed)
    check((len(t2.raw) == n) and (t2.raw == raw), "parse(w).wif(parse(w).compressed) != w", witness=wit)
    return "accept"


def ob_wif_parse():
    runs = [sym_run(lambda: _wif_parse_path(n), expect_classes=["accept", "reject"]) for n in (33, 34)]
    m = merge_runs(runs)
    m["sample"] = {"payload": "33 / 34 symbolic bytes behind the Base58Check layer"}
    return m


def replay_wif(w):
    from buidl import pecc, helper
    if w["kind"] == "wif":
        pk = pecc.PrivateKey(w["secret"], network=w["network"])
        t = pk.wif(compressed=w["compressed"])
        want = spec_b58encode_check(spec_wif_payload(w["secret"], w["network"] == "mainnet", w["compressed"]))
        try:
            back = pecc.PrivateKey.parse(t)
            ok = back.secret == w["secret"] and back.compressed == w["compressed"] and (back.network == "mainnet") == (w["network"] == "mainnet") \
                and back.wif(compressed=back.compressed) == t
        except Exception as ex:
            ok = False
        return {"violated": t != want or not ok, "observed": f"wif = {t}, reference {want}, round trip {'ok' if ok else 'FAILS'}"}
    raw = bytes.fromhex(w["raw"])
    t = spec_b58encode_check(raw)
    secret = int.from_bytes(raw[1:33], "big")
    ok = raw[0] in (0x80, 0xEF) and 1 <= secret < N_SECP and (len(raw) == 33 or raw[33] == 1)
    try:
        k = pecc.PrivateKey.parse(t)
    except Exception as ex:
        return {"violated": ok, "observed": f"parse of payload {raw.hex()} raised {ex!r}"}
    bad = (not ok) or k.secret != secret or k.compressed != (len(raw) == 34) or k.wif(compressed=k.compressed) != t
    return {"violated": bad, "observed": f"payload {raw.hex()} ({'well-formed' if ok else 'malformed'}) accepted: secret {k.secret:#x}, compressed {k.compressed}"}


def spec_b58encode_check(raw):
    return spec_b58encode(raw + real_hash256(raw)[:4])


# =============================================================================================== O3 segwit addresses

def _segwit_path(n, network, vclass):
    S = mods()
    be = S["be"]
    use_polymod("norm")
    hrp = HRP[network]
    prog = SBytes.sym("p", n)
    if vclass == "v0":
        s0, v = 0, 0
    else:
        s0 = SI.var("s0", 0x51, 0x60)
        v = s0 - 0x50

    def wit(env):
        return {"kind": "segwit", "s0": env.get("s0", 0), "prog": bytes_env(env, "p", n).hex(), "network": network}
    spk = bytes([0]) + bytes([n]) + prog if vclass == "v0" else SBytes([s0, n]) + prog
    addr = be.encode_bech32_checksum(spk, network)
    const = 1 if vclass == "v0" else BECH32M
    want = sym_text(B32, spec_segwit_symbols(hrp, v, prog, const))
    want = hrp + "1" + want
    check((len(addr) == len(want)) and (addr == want), "encode_bech32_checksum differs from the BIP173 / BIP350 reference encoding "
          "(version symbol, 8->5 regrouping, checksum)", witness=wit)
    syms = text_digits(addr[len(hrp) + 1:], B32)
    pm = anf.normalize(spec_polymod(spec_hrp_expand(hrp) + syms), 30)
    check(pm == const, "checksum constant: version 0 must verify against 1 (Bech32), versions 1..16 against 0x2bc830a3 (Bech32m)", witness=wit)
    try:
        net, ver, hsh = be.decode_bech32(addr)
    except Exception as ex:
        check(False, f"decode_bech32(encode_bech32_checksum(spk)) raised {type(ex).__name__}", witness=wit)
        return "raised"
    check(net == NETCLASS[hrp], "decode_bech32: network", witness=wit)
    check(ver == v, "decode_bech32: witness version", witness=wit)
    check((len(hsh) == n) and (hsh == prog), "decode_bech32: witness program", witness=wit)
    return Out(vclass, syms)


def ob_segwit(lengths, network):
    runs = []
    nat = loader.native("bech32")

    def native(env, n):
        s0 = env.get("s0", 0)
        a = nat.encode_bech32_checksum(bytes([s0, n]) + bytes_env(env, "p", n), network)
        return [B32.find(c) for c in a[len(HRP[network]) + 1:]]
    for n in lengths:
        for vc in ("v0", "v1-16"):
            def gen(rng, n=n, vc=vc):
                env = {f"p[{i}]": rng.randrange(256) for i in range(n)}
                if vc != "v0":
                    env["s0"] = rng.randrange(0x51, 0x61)
                return env
            runs.append(sym_run(lambda: _segwit_path(n, network, vc), timeout_ms=60000, expect_classes=[vc], gen_env=gen,
                                native=lambda env, n=n: native(env, n), n_val=4))
    m = merge_runs(runs)
    m["sample"] = {"network": network, "program lengths": list(lengths), "version byte": "0x00, and symbolic in 0x51..0x60", "program": "symbolic bytes"}
    return m


def replay_segwit(w):
    from buidl import bech32
    prog = bytes.fromhex(w["prog"])
    s0 = w["s0"]
    v = s0 - 0x50 if s0 else 0
    hrp = HRP[w["network"]]
    a = bech32.encode_bech32_checksum(bytes([s0, len(prog)]) + prog, w["network"])
    want = spec_segwit_encode(hrp, v, prog)
    try:
        back = bech32.decode_bech32(a)
    except Exception as ex:
        back = repr(ex)
    ok = back == [NETCLASS[hrp], v, prog]
    return {"violated": a != want or not ok, "observed": f"v{v} program {prog.hex()} {w['network']}: {a} (reference {want}); decode -> {back if not ok else 'ok'}"}


# =============================================================================================== O4 error detection

def data_len(nprog):
    return 7 + -(-8 * nprog // 5)


def _syn_expr(e, cols):
    acc = 0
    for b in range(5):
        if cols[b]:
            acc = acc ^ s_ite(((e >> b) & 1) != 0, cols[b], 0)
    return acc


def _syndrome_path(hrp, L, lo, hi):
    """affine lemma for the real bech32_polymod at this length, syndrome columns, then one query per position pair"""
    real = use_polymod("real")
    off = len(spec_hrp_expand(hrp))
    n = off + L
    A = [SI.var(f"a[{i}]", 0, 31) for i in range(n)]
    B = [SI.var(f"b[{i}]", 0, 31) for i in range(n)]
    sp = anf.STRICT
    ma = anf.forms(real(A), 30, sp)
    mb = anf.forms(real(B), 30, sp)
    mab = anf.forms(real([x ^ y for x, y in zip(A, B)]), 30, sp)
    p0 = real([0] * n)
    lemma = isinstance(p0, int) and all((x ^ y ^ z) == ((p0 >> i) & 1) for i, (x, y, z) in enumerate(zip(ma, mb, mab)))
    check(lemma, "affine lemma: polymod(a ^ b) == polymod(a) ^ polymod(b) ^ polymod(0) (normal forms differ)",
          witness=lambda env: {"kind": "affine", "n": n})
    c0, cols = anf.columns(ma)
    check(c0 == p0, "constant part of the normal form is not polymod(0..0)", witness=lambda env: {"kind": "affine", "n": n})
    col = [[cols.get(sp.atom_index(A[i].n, b), 0) for b in range(5)] for i in range(n)]
    e1 = SI.var("e1", 0, 31)
    e2 = SI.var("e2", 0, 31)
    pairs = [(i, j) for i in range(L) for j in range(i + 1, L)][lo:hi]
    S1 = {}
    S2 = {}
    for (i, j) in pairs:
        if i not in S1:
            S1[i] = _syn_expr(e1, col[off + i])
        if j not in S2:
            S2[j] = _syn_expr(e2, col[off + j])
        syn = S1[i] ^ S2[j]
        bad = syn == 0
        if i == 0:
            # the version character changes: a change between 0 and non-zero also switches the expected constant
            bad = s_or(bad, s_and(e1 != 0, syn == CSWITCH))
        check(s_or(s_and(e1 == 0, e2 == 0), s_not(bad)),
              "a substitution of at most two data-part characters leaves the checksum valid",
              witness=lambda env, i=i, j=j: {"kind": "subst", "hrp": hrp, "L": L, "subs": [[i, env["e1"]], [j, env["e2"]]]})
    return "ok"


def ob_syndromes(hrp, L, lo, hi):
    r = sym_run(lambda: _syndrome_path(hrp, L, lo, hi), timeout_ms=60000, max_violations=12)
    r["sample"] = {"hrp": hrp, "data-part length": L, "position pairs": f"{lo}..{hi} of {L * (L - 1) // 2}", "substitution values": "symbolic 5-bit differences (e_i, e_j) != (0,0)"}
    return r


def replay_subst(w):
    """build valid addresses natively, substitute the characters, decode natively"""
    from buidl import bech32
    if w.get("kind") == "affine":
        import random
        n = w["n"]
        for _ in range(200):
            a = [random.randrange(32) for _ in range(n)]
            b = [random.randrange(32) for _ in range(n)]
            lhs = bech32.bech32_polymod([x ^ y for x, y in zip(a, b)])
            if lhs != bech32.bech32_polymod(a) ^ bech32.bech32_polymod(b) ^ bech32.bech32_polymod([0] * n):
                return {"violated": True, "observed": f"bech32_polymod is not affine at length {n}: a={a} b={b}"}
        return {"violated": False, "observed": "affine on 200 random pairs"}
    hrp, L, subs = w["hrp"], w["L"], [s for s in w["subs"] if s[1]]
    nprog = (L - 7) * 5 // 8
    net = {"bc": "mainnet", "tb": "testnet", "bcrt": "regtest"}[hrp]
    e0 = next((x for p, x in subs if p == 0), 0)
    tried = []
    for v in [0] + ([e0] if 1 <= e0 <= 16 else []) + [1, 16]:
        for prog in (bytes(range(7, 7 + nprog)), bytes(nprog)):
            a = bech32.encode_bech32_checksum(bytes([0x50 + v if v else 0, nprog]) + prog, net)
            data = list(a[len(hrp) + 1:])
            if len(data) != L:
                continue
            for p, x in subs:
                data[p] = B32[B32.find(data[p]) ^ x]
            c = a[:len(hrp) + 1] + "".join(data)
            if c == a:
                continue
            try:
                r = bech32.decode_bech32(c)
            except Exception:
                tried.append(c)
                continue
            return {"violated": True, "observed": f"{a} is valid; substituting {len(subs)} character(s) gives {c}, which decode_bech32 accepts as {r[0]}, v{r[1]}, {bytes(r[2]).hex()}"}
    return {"violated": False, "observed": f"{len(tried)} corrupted addresses, all refused"}


def _acceptance_path(hrp, L, badpos, badch):
    """the acceptance predicate of the real decode_bech32 for a string hrp + '1' + L characters: with the checksum polynomial an
    arbitrary 30-bit value P of the recorded argument list, the decoder accepts exactly when P is the constant selected by the
    version symbol (and the structural length test passes)"""
    S = mods()
    be = S["be"]
    P = SI.var("P", 0, (1 << 30) - 1)
    calls = []

    def probe(values):
        calls.append(list(values))
        return P
    use_polymod("probe", probe)
    d = [SI.var(f"d[{i}]", 0, 31) for i in range(L)]
    items = [Ch(B32, x) for x in d]
    if badpos is not None:
        items[badpos] = badch
    text = Txt(list(hrp + "1") + items)

    def wit(env):
        return {"kind": "accept", "hrp": hrp, "data": [env[f"d[{i}]"] for i in range(L)], "P": env["P"], "bad": [badpos, badch]}
    try:
        r = be.decode_bech32(text)
        acc = True
    except core.Unsupported:
        raise
    except Exception:
        acc = False
    if badpos is not None:
        check(not acc, "decode_bech32 accepts a string with a character outside the bech32 alphabet in its data part", witness=wit)
        return "bad-char:" + ("accept" if acc else "reject")
    nbytes = (L - 7) * 5 // 8
    want = s_and(P == s_ite(d[0] == 0, 1, BECH32M), 2 <= nbytes <= 40) if L >= 7 else False
    if acc:
        check(want, "decode_bech32 accepts although polymod(hrp_expand + data) is not the constant selected by the version symbol", witness=wit)
        args_ok = len(calls) == 1 and len(calls[0]) == len(spec_hrp_expand(hrp)) + L and \
            all((x is y) or (isinstance(x, int) and isinstance(y, int) and x == y) or (isinstance(x, SI) and isinstance(y, SI) and x.n is y.n)
                for x, y in zip(calls[0], spec_hrp_expand(hrp) + d))
        check(args_ok, "the checksum polynomial is not evaluated on hrp_expand(hrp) + data symbols", witness=wit)
        body, _ = c20.spec_5to8(d[1:-6])
        check(s_and(r[0] == NETCLASS[hrp], r[1] == d[0], (len(r[2]) == nbytes) and (r[2] == norm(SBytes(body)))), "decode_bech32 outputs", witness=wit)
        return "accept"
    check(s_not(want), "decode_bech32 refuses although the checksum and the length test pass", witness=wit)
    return "reject"


def ob_acceptance(hrp, L):
    runs = [sym_run(lambda: _acceptance_path(hrp, L, None, None), expect_classes=["accept", "reject"] if 2 <= (L - 7) * 5 // 8 <= 40 else ["reject"])]
    for pos in range(L):
        ch = "1bio BQ-"[(pos + L) % 8]
        runs.append(sym_run(lambda: _acceptance_path(hrp, L, pos, ch)))
    m = merge_runs(runs)
    m["sample"] = {"text": f"{hrp}1 + {L} symbolic bech32 characters", "polymod": "arbitrary 30-bit value of the recorded argument list",
                   "bad characters": "one of '1bio BQ-' at each data position in turn"}
    return m


def replay_accept(w):
    """native decode_bech32 against the acceptance predicate: alphabet characters only, polymod(hrp_expand + data) is the constant
    of the version symbol, program length in 2..40"""
    from buidl import bech32
    hrp, data = w["hrp"], w["data"]
    chars = [B32[x] for x in data]
    if w["bad"][0] is not None:
        chars[w["bad"][0]] = w["bad"][1]
    elif w.get("P") is not None and len(data) >= 7:
        # P is the value the solver gave the polynomial; the last six symbols act bijectively on the 30-bit polymod value, so the
        # checksum characters that make the REAL polymod equal P are computed directly (covers "valid" and "the other constant")
        pm = spec_polymod(spec_hrp_expand(hrp) + data[:-6] + [0] * 6) ^ (w["P"] & 0x3FFFFFFF)
        chars[-6:] = [B32[(pm >> 5 * (5 - i)) & 31] for i in range(6)]
    s = hrp + "1" + "".join(chars)
    syms = [B32.find(c) for c in chars]
    ok = min(syms) >= 0 and len(syms) >= 7 and spec_polymod(spec_hrp_expand(hrp) + syms) == (1 if syms[0] == 0 else BECH32M) \
        and 2 <= (len(syms) - 7) * 5 // 8 <= 40
    try:
        r = bech32.decode_bech32(s)
        acc = True
    except Exception as ex:
        acc, r = False, repr(ex)[:80]
    return {"violated": acc != ok, "observed": f"{s!r}: decode_bech32 {'accepts' if acc else 'refuses'} ({r}); checksum / alphabet / length predicate {'holds' if ok else 'fails'}"}


def _anf_crosscheck_path(k):
    """(1) the real polymod expression and its rebuilt normal form are equivalent (z3, bit-vectors, k symbols);
       (2) the normal form agrees with the native function on random inputs at 90 symbols"""
    real = use_polymod("real")
    A = [SI.var(f"a[{i}]", 0, 31) for i in range(k)]
    pa = real(A)
    sp = anf.STRICT
    ma = anf.forms(pa, 30, sp)
    nf = wrap(anf.rebuild(ma, sp))
    wit = lambda env: {"kind": "pm", "values": [env[f"a[{i}]"] for i in range(k)]}  # noqa
    check(pa == nf, "normal form of bech32_polymod differs from the expression the real code computed", witness=wit, timeout_ms=150000)
    ms = anf.forms(spec_polymod(A), 30, sp)
    same = ma == ms
    vals = [0] * k
    if not same:
        # an input on which the two affine forms differ: all zero when the constants differ, else one input bit
        dm = next(x ^ y for x, y in zip(ma, ms) if x != y)
        if not dm & 1:
            idx = (dm & -dm).bit_length() - 1
            node, bit = sp.atoms[idx]
            vals[[a.n.id for a in A].index(node.id)] = 1 << bit
    check(same, "bech32_polymod differs from the BIP173 reference polynomial (generator constants)", witness=lambda env: {"kind": "pm", "values": vals})
    return "ok"


def _anf_direct_path(k):
    """the two-substitution claim decided by z3 directly (no normal form) at a short length, to cross-check the syndrome route"""
    real = use_polymod("real")
    w = [SI.var(f"w[{i}]", 0, 31) for i in range(k)]
    e1 = SI.var("e1", 1, 31)
    e2 = SI.var("e2", 0, 31)
    pw = real(w)
    assume(pw == 1)
    for (i, j) in [(0, 1), (0, k - 1), (k - 7, k - 1), (k - 2, k - 1)]:
        w2 = list(w)
        w2[i] = w2[i] ^ e1
        w2[j] = w2[j] ^ e2
        check(real(w2) != 1, "direct query: a valid word with two substituted symbols is valid again",
              witness=lambda env, i=i, j=j: {"kind": "pm", "values": [env[f"w[{t}]"] for t in range(k)], "subs": [[i, env["e1"]], [j, env["e2"]]]},
              timeout_ms=150000)
    return "ok"


def ob_anf_crosscheck(k):
    runs = [sym_run(lambda: _anf_crosscheck_path(k), timeout_ms=150000), sym_run(lambda: _anf_direct_path(k), timeout_ms=150000)]

    def rnd():
        import random
        nat = loader.native("bech32")
        ok = True

        def p():
            nonlocal ok
            real = use_polymod("real")
            A = [SI.var(f"a[{i}]", 0, 31) for i in range(90)]
            ma = anf.forms(real(A), 30, anf.STRICT)
            ids = {A[i].n.id: i for i in range(90)}
            for _ in range(300):
                vals = [random.randrange(32) for _ in range(90)]
                got = anf.evaluate(ma, lambda node, bit: (vals[ids[node.id]] >> bit) & 1, anf.STRICT)
                ok = ok and got == nat.bech32_polymod(list(vals))
            return "ok"
        core.explore(p)
        return ok, "normal form of the real bech32_polymod at 90 symbols evaluated on 300 random inputs against the native function"
    runs.append(conc_run(rnd, "XOR-affine normal form vs native bech32_polymod (concrete)"))
    m = merge_runs(runs)
    m["sample"] = {"symbols": k, "checks": "z3: expression == rebuilt normal form; z3 direct two-substitution query; reference generator constants"}
    return m


def replay_pm(w):
    from buidl import bech32
    v = w["values"]
    got, want = bech32.bech32_polymod(list(v)), spec_polymod(v)
    if "subs" in w:
        v2 = list(v)
        for p, x in w["subs"]:
            v2[p] ^= x
        bad = got == 1 and v2 != v and bech32.bech32_polymod(v2) == 1
        return {"violated": bad, "observed": f"polymod({v}) = {got}, after substitution {w['subs']}: {bech32.bech32_polymod(v2)}"}
    return {"violated": got != want, "observed": f"bech32_polymod({v}) = {got:#x}, BIP173 reference {want:#x}"}


# =============================================================================================== O5 address <-> scriptPubKey

TEMPLATES = {
    "p2pkh": (20, lambda h: [0x76, 0xA9, h, 0x88, 0xAC]),
    "p2sh": (20, lambda h: [0xA9, h, 0x87]),
    "p2wpkh": (20, lambda h: [0x00, h]),
    "p2wsh": (32, lambda h: [0x00, h]),
    "p2tr": (32, lambda h: [0x51, h]),
}
B58_VERSION = {("p2pkh", True): 0x00, ("p2pkh", False): 0x6F, ("p2sh", True): 0x05, ("p2sh", False): 0xC4}


def _mk_spk(sc, kind, h):
    return {"p2pkh": sc.P2PKHScriptPubKey, "p2sh": sc.P2SHScriptPubKey, "p2wpkh": sc.P2WPKHScriptPubKey, "p2wsh": sc.P2WSHScriptPubKey,
            "p2tr": sc.P2TRScriptPubKey}[kind](h)


def _cmds_eq(cmds, want):
    if len(cmds) != len(want):
        return False
    conds = []
    for a, b in zip(cmds, want):
        if isinstance(b, int):
            if not isinstance(a, (int, SI)):
                return False
            conds.append(a == b)
        else:
            if isinstance(a, (int, SI)) or len(a) != len(b):
                return False
            conds.append(a == b)
    return s_and(*conds)


def _scripts():
    S = mods()
    if "sc" not in S:
        S["sc"] = loader.load("script")
        S["tx"] = loader.load("tx")
    return S["sc"], S["tx"]


def _spk_class_ok(sc, obj, kind):
    return type(obj).__name__ == {"p2pkh": "P2PKHScriptPubKey", "p2sh": "P2SHScriptPubKey", "p2wpkh": "P2WPKHScriptPubKey",
                                  "p2wsh": "P2WSHScriptPubKey", "p2tr": "P2TRScriptPubKey"}[kind]


def _addr_segwit_path(kind, network):
    sc, tx = _scripts()
    use_polymod("norm")
    n, tmpl = TEMPLATES[kind]
    h = SBytes.sym("h", n)
    wit = lambda env: {"kind": "spk", "template": kind, "network": network, "hash": bytes_env(env, "h", n).hex()}  # noqa
    spk = _mk_spk(sc, kind, h)
    # history: the same object is first asked for its address on another network
    other = "testnet" if network == "mainnet" else "mainnet"
    first = spk.address(other)
    check(first[:len(HRP[other]) + 1] == HRP[other] + "1", "address(other network) does not start with that network's prefix", witness=wit)
    addr = spk.address(network)
    hrp = HRP[network]
    v = 1 if kind == "p2tr" else 0
    want = hrp + "1" + sym_text(B32, spec_segwit_symbols(hrp, v, h, BECH32M if v else 1))
    check((len(addr) == len(want)) and (addr == want), "address() is not the BIP173 / BIP350 encoding of (hrp of the network, version, program)", witness=wit)
    out = []
    for name, fn in (("address_to_script_pubkey", lambda a: sc.address_to_script_pubkey(a)), ("TxOut.to_address", lambda a: tx.TxOut.to_address(a, 21000).script_pubkey)):
        try:
            back = fn(addr)
        except core.Unsupported:
            raise
        except Exception as ex:
            w2 = lambda env, name=name: dict(wit(env), via=name)  # noqa
            check(False, f"{name}(spk.address(network)) raised {type(ex).__name__}", witness=w2)
            out.append("raised")
            continue
        w2 = lambda env, name=name: dict(wit(env), via=name)  # noqa
        check(_spk_class_ok(sc, back, kind) and _cmds_eq(back.commands, tmpl(h)), f"{name}(spk.address(network)) != spk", witness=w2)
        out.append("ok")
    return tuple(out)


def ob_addr_segwit(kind, network):
    r = sym_run(lambda: _addr_segwit_path(kind, network), timeout_ms=60000)
    r["sample"] = {"template": kind, "network": network, "hash": "symbolic bytes"}
    return r


def _addr_b58_layout_path(kind, network):
    sc, tx = _scripts()
    n, tmpl = TEMPLATES[kind]
    h = SBytes.sym("h", n)
    wit = lambda env: {"kind": "spk", "template": kind, "network": network, "hash": bytes_env(env, "h", n).hex(), "via": "address"}  # noqa
    seen = []
    orig = sc.encode_base58_checksum
    sc.encode_base58_checksum = lambda raw: (seen.append(raw), B58Carrier(raw))[1]
    try:
        obj = _mk_spk(sc, kind, h)
        obj.address("testnet" if network == "mainnet" else "mainnet")   # history: another network first, same object
        del seen[:]
        t = obj.address(network)
    finally:
        sc.encode_base58_checksum = orig
    want = bytes([B58_VERSION[(kind, network == "mainnet")]]) + h
    check(len(seen) == 1 and isinstance(t, B58Carrier) and (len(seen[0]) == 21) and (seen[0] == want),
          "address() is not Base58Check(version byte + hash160) with version 0x00/0x05 on mainnet and 0x6f/0xc4 elsewhere", witness=wit)
    return "ok"


def _addr_b58_decode_path(ver, z, a, b, tag):
    """address_to_script_pubkey / TxOut.to_address on encode_base58(X) for the 25-byte strings X with version byte `ver`"""
    S = mods()
    h = S["h"]
    sc, tx = _scripts()
    X, v = mk_bytes(f"x{tag}", 25, z, a, b)
    kind = {0x00: "p2pkh", 0x6F: "p2pkh", 0x05: "p2sh", 0xC4: "p2sh"}[ver]
    tmpl = TEMPLATES[kind][1]
    valid = X[-4:] == H4(X[:-4])

    def wit(env):
        x = bytes(conc_value(X, env)) if v is not None else X
        return {"kind": "spk", "template": kind, "network": "mainnet" if ver in (0, 5) else "testnet", "hash": x[1:21].hex(),
                "x": x.hex(), "valid": model_true(valid)}
    t = h.encode_base58(X)
    out = []
    for name, fn in (("address_to_script_pubkey", lambda s: sc.address_to_script_pubkey(s)), ("TxOut.to_address", lambda s: tx.TxOut.to_address(s, 21000).script_pubkey)):
        w2 = lambda env, name=name: dict(wit(env), via=name)  # noqa
        try:
            back = fn(t)
        except core.Unsupported:
            raise
        except RuntimeError as ex:
            if "bad address" in str(ex):
                check(s_not(valid), f"{name} refuses an address whose checksum matches", witness=w2)
            else:
                check(False, f"{name}(address) raised {type(ex).__name__}: first character not recognised", witness=w2)
            out.append("reject")
            continue
        except Exception as ex:
            check(False, f"{name}(address) raised {type(ex).__name__}", witness=w2)
            out.append("raised")
            continue
        check(valid, f"{name} accepts an address whose checksum does not match", witness=w2)
        check(_spk_class_ok(sc, back, kind) and _cmds_eq(back.commands, tmpl(X[1:21])), f"{name}(address) is not the script of the hash it encodes", witness=w2)
        out.append("accept")
    return tuple(out)


def ob_addr_b58(kind, mainnet):
    _b58_flags(True)
    ver = B58_VERSION[(kind, mainnet)]
    runs = []
    for net in (("mainnet",) if mainnet else ("testnet", "signet", "regtest")):
        runs.append(sym_run(lambda: _addr_b58_layout_path(kind, net), mode="int"))
    for k, (z, a, b) in enumerate(b58_cases(25, first=ver, digit_cuts=ver != 0)):
        core.reset_int_lowering()
        runs.append(sym_run(lambda: _addr_b58_decode_path(ver, z, a, b, f"{ver}_{k}"), mode="int", timeout_ms=60000))
    m = merge_runs(runs)
    m["sample"] = {"template": kind, "networks": ["mainnet"] if mainnet else ["testnet", "signet", "regtest"], "version byte": hex(ver),
                   "X": "every 25-byte string with that version byte (hash160 and checksum bytes symbolic)", "value ranges": len(runs)}
    if "('accept', 'accept')" not in m["classes"]:
        m["inconclusive"].append("reachability twin: no path on which both decoders accept")
    return m


def replay_spk(w):
    from buidl import script, tx
    kind, net = w["template"], w["network"]
    h = bytes.fromhex(w["hash"])
    cls = {"p2pkh": script.P2PKHScriptPubKey, "p2sh": script.P2SHScriptPubKey, "p2wpkh": script.P2WPKHScriptPubKey,
           "p2wsh": script.P2WSHScriptPubKey, "p2tr": script.P2TRScriptPubKey}[kind]
    spk = cls(h)
    spk.address("testnet" if net == "mainnet" else "mainnet")   # the same object was first asked about another network
    a = spk.address(net)
    if kind in ("p2pkh", "p2sh"):
        want = spec_b58encode_check(bytes([B58_VERSION[(kind, net == "mainnet")]]) + h)
    else:
        want = spec_segwit_encode(HRP[net], 1 if kind == "p2tr" else 0, h)
    res = {}
    for name, fn in (("address_to_script_pubkey", lambda s: script.address_to_script_pubkey(s)), ("TxOut.to_address", lambda s: tx.TxOut.to_address(s, 21000).script_pubkey)):
        try:
            back = fn(a)
            res[name] = "ok" if (type(back) is cls and back.commands == spk.commands) else f"DIFFERENT {back}"
        except Exception as ex:
            res[name] = "RAISED " + repr(ex)[:90]
    bad = a != want or any(v != "ok" for v in res.values())
    if w.get("valid") is False:
        # a mismatching checksum: both decoders must refuse the corrupted text
        x = bytes.fromhex(w["x"])
        if x[-4:] == real_hash256(x[:-4])[:4]:
            x = x[:-1] + bytes([x[-1] ^ 1])
        t = spec_b58encode(x)
        acc = []
        for name, fn in (("address_to_script_pubkey", lambda s: script.address_to_script_pubkey(s)), ("TxOut.to_address", lambda s: tx.TxOut.to_address(s, 21000))):
            try:
                fn(t)
                acc.append(name)
            except Exception:
                pass
        return {"violated": bool(acc) or bad, "observed": f"{t!r} (checksum mismatch) accepted by {acc}; " + str(res)}
    return {"violated": bad, "observed": f"{kind} {net} hash {h.hex()}: address {a} (reference {want}); " + ", ".join(f"{k}: {v}" for k, v in res.items())}


# =============================================================================================== registry

def _chunks(lo, hi, k):
    step = -(-(hi - lo + 1) // k)
    return [(a, min(a + step - 1, hi)) for a in range(lo, hi + 1, step)]


def obligations(tier):
    q = tier == "quick"
    obs = [Ob("O0-tables", ob_tables)]
    # ---- O1
    obs.append(Ob("O1-divmod-lemma", ob_divmod_lemma, replay="lemma"))
    sizes = [1, 2, 5, 21, 33, 34, 78] if q else [1, 2, 3, 4, 5, 20, 21, 32, 33, 34, 37, 38, 64, 78, 82]
    for n in sizes:
        tot = n + 4
        for (a, b) in _chunks(0, tot, 1 if tot <= 9 else (2 if tot <= 25 else (4 if tot <= 42 else 12))):
            obs.append(Ob("O1-base58", ob_b58, {"n": tot, "zlo": a, "zhi": b}, replay="b58", budget_s=1500))
    obs.append(Ob("O1-checksum-layout", ob_b58_layout, {"lengths": tuple(sizes)}, replay="b58layout"))
    for n in (1, 2):     # n = 3 needs ~12 min and one feasibility query times out: not claimed
        obs.append(Ob("O1-base58check-z3", ob_b58_direct, {"n": n}, replay="b58", budget_s=1500))
    # ---- O2
    obs.append(Ob("O2-wif", ob_wif, replay="wif"))
    obs.append(Ob("O2-wif-parse", ob_wif_parse, replay="wif"))
    # ---- O3
    lens = [2, 20, 32, 40] if q else list(range(2, 41))
    for net in NETS:
        for g in ([tuple(lens)] if q else [tuple(lens[i:i + 10]) for i in range(0, len(lens), 10)]):
            obs.append(Ob("O3-segwit", ob_segwit, {"lengths": g, "network": net}, replay="segwit", budget_s=1500))
    # ---- O4
    obs.append(Ob("O4-anf-crosscheck", ob_anf_crosscheck, {"k": 8}, replay="pm", budget_s=900))
    Ls = [39, 59] if q else sorted({data_len(n) for n in range(2, 41)})
    for hrp in ("bc", "tb", "bcrt"):
        for L in Ls:
            npairs = L * (L - 1) // 2
            parts = 1 if npairs <= 400 else (2 if npairs <= 1000 else 4)
            for (a, b) in _chunks(0, npairs - 1, parts):
                obs.append(Ob("O4-syndromes", ob_syndromes, {"hrp": hrp, "L": L, "lo": a, "hi": b + 1}, replay="subst", budget_s=1500))
        for L in (Ls if q else [11, 39, 59, 71]):
            obs.append(Ob("O4-acceptance", ob_acceptance, {"hrp": hrp, "L": L}, replay="accept", budget_s=900))
    # ---- O5
    for kind in ("p2wpkh", "p2wsh", "p2tr"):
        for net in NETS:
            obs.append(Ob("O5-address-segwit", ob_addr_segwit, {"kind": kind, "network": net}, replay="spk"))
    for kind in ("p2pkh", "p2sh"):
        for mainnet in (True, False):
            obs.append(Ob("O5-address-base58", ob_addr_b58, {"kind": kind, "mainnet": mainnet}, replay="spk", budget_s=1500))
    return obs
