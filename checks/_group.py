"""shared harness support: install the abstract prime-order group (symx/field.py) into the shimmed buidl modules for one path"""
import sys

from symx import core, loader, field

N = 0xFFFFFFFFFFFFFFFFFFFFFFFFFFFFFFFEBAAEDCE6AF48A03BBFD25E8CD0364141
P = 2**256 - 2**32 - 977


class Env:
    def __init__(self, extra_modules=()):
        self.pecc = loader.load("pecc")
        for m in extra_modules:
            loader.load(m)
        self.fld = field.Field(N)
        field.FIELD[0] = self.fld
        self.grp = field.AbstractGroup(self.fld, P)
        if not hasattr(self.pecc, "_RealS256Point"):
            self.pecc._RealS256Point = self.pecc.S256Point
            self.pecc._RealG = self.pecc.G
        self.realP, self.realG = self.pecc._RealS256Point, self.pecc._RealG
        self.Point, self.G = self.grp.make_point_class(self.realP, self.pecc.S256Field)
        self._patched = []
        for name, mod in list(sys.modules.items()):
            if not name.startswith("sbuidl") or mod is None:
                continue
            if getattr(mod, "G", None) is self.realG:
                mod.G = self.G
                self._patched.append((mod, "G", self.realG))
            if getattr(mod, "S256Point", None) is self.realP:
                mod.S256Point = self.Point
                self._patched.append((mod, "S256Point", self.realP))

    def point(self, d):
        return self.Point(d=d)

    def close(self):
        field.FIELD[0] = None
        for mod, attr, val in self._patched:
            setattr(mod, attr, val)


def with_env(*mods):
    def deco(fn):
        def wrapped(*a, **k):
            e = Env(mods)
            try:
                return fn(e, *a, **k)
            finally:
                e.close()
        wrapped.__name__ = fn.__name__
        return wrapped
    return deco


def seven_is_nonresidue():
    """no secp256k1 point has x = 0 (used to justify X >= 1 in the abstract group)"""
    return pow(7, (P - 1) // 2, P) == P - 1
