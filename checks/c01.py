"""C01 — ECDSA: signing complete, verification sound, signatures canonical (DESIGN.md section 3, C01)."""
from symx import core, loader, shims, field
from symx.core import SI, SBytes, check, s_and, s_or, s_not, s_implies, assume, bytes_env, Out, conc_value, wrapb, lift
from vlib.run import Ob, sym_run, merge_runs, conc_run

PROPERTY = "C01"

N = 0xFFFFFFFFFFFFFFFFFFFFFFFFFFFFFFFEBAAEDCE6AF48A03BBFD25E8CD0364141
P = 2**256 - 2**32 - 977

META = {
    "bounds": {
        "quick": {"sign": "all secrets d in [1,N-1], digests z in [0,2^256), nonces k in [1,N-1] (real N; nonce generator stubbed to an arbitrary k)",
                  "rfc6979": "all d, z; HMAC-DRBG loop unwound to 3 candidate draws; HMAC-SHA256 uninterpreted",
                  "verify": "all keys d in [1,N-1], z in [0,2^256), r, s in [-2^257, 2^257]",
                  "toy": "end-to-end sign->verify cross-check without abstraction on the real curve classes over F_43 (group order 31): d in 1..4, all k, z in 0..8 (thorough: all d in 1..30, z in 0..33)", "der": "r, s in [1,N-1] partitioned by the number of leading zero bytes (0..3) and the high-bit pad; "
                         "Signature.parse on arbitrary strings of <= 9 bytes"},
        "thorough": {"der": "leading zero bytes 0..31, parse on arbitrary strings of <= 11 bytes", "rfc6979": "5 candidate draws"}},
    "outside": ["cecc.py (libsec bindings, not importable here)", "sign_message/verify_message hashing (one hash256 call)",
                "the group law itself: points are d*G in an abstract prime-order group (checked on the real classes over toy curves in C03)",
                "the ECDSA retry conditions r == 0 / s == 0 (probability 2^-256 with a real nonce; assumed not to occur)"],
    "stubs": ["abstract prime-order group: S256Point.__init__/__add__/__rmul__/coordinates replaced by the discrete-log model, X(d) and parity "
              "uninterpreted with X(-d)=X(d)", "scalar arithmetic mod N kept as rational functions over GF(N) (symx/field.py); one opaque "
              "integer per canonical form", "HMAC-SHA256 uninterpreted (hash-consed)", "deterministic_k returns an arbitrary k in O1/O5"],
    "assumptions": ["secp256k1 is a prime-order group with the stated N (C03)", "s0 != 0 and r != 0 mod N for the nonce used"],
}
MANIFEST = {"technique": "symbolic execution of the real sign/verify/DER code over an abstract prime-order group; scalar identities mod the real N "
                         "decided by a GF(N) rational-function canonical form, range/low-S conditions by z3 (LIA)"}


from checks._group import Env, with_env as _with_env


def with_env(fn):
    return _with_env()(fn)


# ---------------------------------------------------------------------------------------- O1 / O5 sign


@with_env
def _sign_path(e):
    pecc = e.pecc
    d = SI.var("d", 1, N - 1)
    z = SI.var("z", 0, (1 << 256) - 1)
    k = SI.var("k", 1, N - 1)
    pk = pecc.PrivateKey(d)
    pk.deterministic_k = lambda zz: k
    rx, _ = e.grp.coords(k)
    r0 = core.wrap(rx)
    s0 = e.fld.reduce((z + r0 * d) * e.fld.inverse(k))
    # ECDSA retry conditions (never met with a real nonce): stated assumption
    assume(wrapb(core.b_not(e.fld.is_zero_cond(field.lift_si(r0)))))
    assume(s0 != 0)
    sig = pk.sign(z)

    def wit(env):
        return {"d": env["d"], "k": env["k"], "s0": conc_value(s0, env)}
    check(sig.r == r0, "r is not the x coordinate of k*G", witness=wit)
    check(s_or(sig.s == s0, sig.s == N - s0), "s is neither (z + r d)/k nor its negation mod N", witness=wit)
    check(s_and(sig.s >= 1, sig.s <= (N - 1) // 2), "s is not in the low half [1, (N-1)/2] (low-S rule)", witness=wit)
    # completeness: the real verify accepts the signature just produced
    try:
        ok = pk.point.verify(z, sig)
    except Exception as ex:
        check(False, f"verify raised {type(ex).__name__} on a fresh signature", witness=wit)
        return "verify-raised"
    if not ok:
        check(False, "verify rejects the signature sign() produced", witness=wit)
        return "rejected"
    check(True, "verified")
    return "flipped" if bool(sig.s != s0) else "kept"


def ob_sign():
    r = sym_run(_sign_path, mode="int", expect_classes=["kept", "flipped"], timeout_ms=60000)
    r["sample"] = {"d": "symbolic [1,N-1]", "z": "symbolic [0,2^256)", "k": "symbolic [1,N-1] (nonce stub)"}
    return r


def replay_sign(w):
    """construct the digest that makes s0 equal the model's value for the model's (d, k), run the real sign with the nonce stubbed"""
    from buidl import pecc
    d, k, s0 = w["d"], w["k"], w["s0"]
    r = (k * pecc.G).x.num
    z = (s0 * k - r * d) % N
    pk = pecc.PrivateKey(d)
    pk.deterministic_k = lambda zz: k
    sig = pk.sign(z)
    low = 1 <= sig.s <= (N - 1) // 2
    eq = sig.r == r and sig.s in (s0, N - s0)
    ok = pk.point.verify(z, sig)
    return {"violated": not (low and eq and ok),
            "observed": f"d={d:#x} k={k:#x} z={z:#x}: s={sig.s:#x} low_s={low} equation={eq} verifies={ok} (nonce stubbed to k)"}


# ---------------------------------------------------------------------------------------- O2 RFC 6979


def spec_rfc6979(d, z, draws):
    """RFC 6979 section 3.2 with HMAC-SHA256, qlen = 256: returns the list of (candidate) values in order"""
    def hm(key, msg):
        return shims._HMAC(key, msg, "sha256").digest()
    x = d.to_bytes(32, "big") if isinstance(d, int) else d.to_bytes(32, "big")
    z2 = z - N if z >= N else z  # bits2octets: z mod q (z < 2^256 < 2q)
    h1 = z2.to_bytes(32, "big")
    V = b"\x01" * 32
    K = b"\x00" * 32
    K = hm(K, V + b"\x00" + x + h1)
    V = hm(K, V)
    K = hm(K, V + b"\x01" + x + h1)
    V = hm(K, V)
    out = []
    for _ in range(draws):
        V = hm(K, V)
        out.append(int.from_bytes(V, "big") if isinstance(V, (bytes, bytearray)) else core.int_from_bytes(V, "big"))
        K = hm(K, V + b"\x00")
        V = hm(K, V)
    return out


def _rfc_path(draws):
    pecc = loader.load("pecc")
    d = SI.var("d", 1, N - 1)
    z = SI.var("z", 0, (1 << 256) - 1)
    pk = pecc.PrivateKey.__new__(pecc.PrivateKey)
    pk.secret = d
    cands = spec_rfc6979(d, z, draws)
    # bound: one of the first `draws` candidates is in range (specification side) ...
    assume(s_or(*[s_and(c >= 1, c < N) for c in cands]))
    # ... and the implementation's own retry loop is cut after the same number of draws
    calls = [0]
    real_hmac = shims.SHIM_MODULES["hmac"]

    class _CountingHmac:
        @staticmethod
        def new(*a, **kw):
            calls[0] += 1
            if calls[0] > 4 + 3 * draws:
                raise core.PathAbort()
            return real_hmac.new(*a, **kw)
    saved = pecc.hmac
    pecc.hmac = _CountingHmac
    try:
        k = pk.deterministic_k(z)
    finally:
        pecc.hmac = saved
    want = cands[-1]
    for c in reversed(cands[:-1]):
        want = core.s_ite(s_and(c >= 1, c < N), c, want)
    check(k == want, "deterministic_k differs from RFC 6979 section 3.2", witness=lambda env: {"d": env["d"], "z": env["z"]})
    return "ok"


def ob_rfc6979(draws):
    r = sym_run(lambda: _rfc_path(draws), timeout_ms=60000)
    r["sample"] = {"d": "symbolic", "z": "symbolic [0,2^256)", "draws": draws}
    return r


def replay_rfc6979(w):
    from buidl import pecc
    d, z = w["d"], w["z"]
    got = pecc.PrivateKey(d).deterministic_k(z)
    want = None
    for c in spec_rfc6979(d, z, 50):
        if 1 <= c < N:
            want = c
            break
    return {"violated": got != want, "observed": f"d={d:#x} z={z:#x}: deterministic_k={got:#x}, RFC 6979={want:#x}"}


# ---------------------------------------------------------------------------------------- O3 verify == spec


class _Sig:
    def __init__(self, r, s):
        self.r = r
        self.s = s


@with_env
def _verify_path(e, forced=None):
    d = SI.var("d", 1, N - 1)
    z = SI.var("z", 0, (1 << 256) - 1)
    B = 1 << 257
    r = SI.var("r", -B, B)
    s = SI.var("s", -B, B)
    pt = e.Point(d=d)
    sigobj = _Sig(r, s)
    z0 = None
    if forced == "history":
        # an earlier verification of the same signature object under another digest on the same key object: whatever it
        # answered, the answer for z below must still be the specification's
        z0 = SI.var("z0", 0, (1 << 256) - 1)
        try:
            first = bool(pt.verify(z0, sigobj))
        except Exception:
            first = False

    d0 = None
    if forced == "history2":
        # an earlier verification on ANOTHER key object (any key, e.g. the negated point, which shares the x coordinate) of any
        # signature under any digest: state kept at module / class level must not leak into the answer below
        e.grp.injective_x = True      # X(a) == X(b) only for a == +-b: another key with the same x is the negated key
        z0 = SI.var("z0", 0, (1 << 256) - 1)
        d0 = SI.var("d0", 1, N - 1)
        sig0 = _Sig(SI.var("r0", -B, B), SI.var("s0", -B, B))
        core.assume(d0 != d)          # (the same key: O3-verify-history)
        pt0 = e.Point(d=d0)
        try:
            first = bool(pt0.verify(z0, sig0))
        except Exception:
            first = False

    def wit(env):
        w = {"d": env["d"], "z": env["z"], "r": env["r"], "s": env["s"]}
        if z0 is not None:
            w["z0"] = env["z0"]
            w["first"] = first
        if d0 is not None:
            w.update({"d0": env["d0"], "r0": env["r0"], "s0": env["s0"]})
        return w
    try:
        got = pt.verify(z, sigobj)
        got = bool(got)
    except Exception:
        got = False
    # specification: ranges, then the ECDSA equation
    if not (s_and(r >= 1, r < N, s >= 1, s < N)):
        want = False
    else:
        si = e.fld.inverse(s)
        u = e.fld.reduce(z * si)
        v = e.fld.reduce(r * si)
        tot = e.fld.reduce(field.lift_si(u) + field.lift_si(v) * d)
        if core.branch(e.fld.is_zero_cond(field.lift_si(tot))):
            want = False
        else:
            xn, _ = e.grp.coords(tot)
            want = bool(core.wrap(xn) == r)
    check(got == want, f"verify answers {got} where the specification answers {want}" + (f" (after an earlier verify under another digest answered {first})" if z0 is not None else ""), witness=wit)
    return (got, want) if z0 is None else (first, got, want)


def ob_verify():
    r = sym_run(_verify_path, mode="int", timeout_ms=60000)
    if "(True, True)" not in r["classes"] or "(False, False)" not in r["classes"]:
        r["inconclusive"].append("reachability twin: accept/accept or reject/reject class missing")
    r["sample"] = {"key": "d*G, d symbolic", "z": "symbolic", "r,s": "symbolic in [-2^257, 2^257]"}
    return r


def ob_verify_history():
    r = sym_run(lambda: _verify_path(forced="history"), mode="int", timeout_ms=60000)
    if "(True, False, False)" not in r["classes"] or "(False, True, True)" not in r["classes"]:
        r["inconclusive"].append("reachability twin: accepted-then-rejected or rejected-then-accepted history missing")
    r["sample"] = {"history": "verify(z0, sig) then verify(z, sig) on the same point and signature objects", "d,z0,z,r,s": "symbolic"}
    return r


def ob_verify_history2():
    r = sym_run(lambda: _verify_path(forced="history2"), mode="int", timeout_ms=60000, max_violations=6)
    if "(True, False, False)" not in r["classes"] or "(False, True, True)" not in r["classes"]:
        r["inconclusive"].append("reachability twin: accepted-then-rejected or rejected-then-accepted history missing")
    r["sample"] = {"history": "verify(z0, sig0) on another key object d0*G, then verify(z, sig) on d*G", "d0,z0,r0,s0,d,z,r,s": "symbolic"}
    return r


def ref_verify(pub, z, r, s):
    """reference ECDSA verification (SEC 1 v2 4.1.4) on the real curve arithmetic, independent of S256Point.verify"""
    from buidl import pecc
    if not (1 <= r < N and 1 <= s < N):
        return False
    si = pow(s, -1, N)
    tot = (z * si % N) * pecc.G + (r * si % N) * pub
    if tot.x is None:
        return False
    return tot.x.num % N == r


def _replay_verify_history2(pk, w):
    """two key objects: a genuine signature by d0 on z0 is verified under d0*G (when the model's first call accepted; otherwise a
    genuine signature by d on z is first offered under d0*G), then the same (digest, r, s) and the model's digest are asked of d*G"""
    from buidl import pecc
    d, z, z0, d0 = w["d"], w["z"] % (1 << 256), w["z0"] % (1 << 256), w["d0"]
    pk0 = pecc.PrivateKey(d0)
    hist = []
    for signer, zs in ((pk0, z0), (pk, z)):
        sig = signer.sign(zs)
        for (da, za), zb in (((d0, z0), z), ((d0, z0), z0), ((d0, zs), zs), ((d0, zs), zs ^ 1)):
            pa = pecc.S256Point.parse(pecc.PrivateKey(da).point.sec())
            pb = pecc.S256Point.parse(pk.point.sec())
            try:
                a = bool(pa.verify(za, pecc.Signature(sig.r, sig.s)))
            except Exception:
                a = False
            try:
                got = bool(pb.verify(zb, pecc.Signature(sig.r, sig.s)))
            except Exception:
                got = False
            want = ref_verify(pb, zb, sig.r, sig.s)
            hist.append((a, got, want))
            if got != want:
                return {"violated": True, "observed": f"verify(z0={za:#x}, sig) on the key d0={da:#x} answered {a}; then verify(z={zb:#x}, same r, s) on the key "
                                                      f"d={d:#x} answered {got}; specification = {want} (r={sig.r:#x}, s={sig.s:#x})"}
    return {"violated": False, "observed": f"histories agree with the specification: {hist}"}


def _replay_verify_history(pk, w):
    """the history class on the real curve: when the model's first call accepted, take a genuine signature for (d, z0), verify
    it on one point object and ask the same object about the model's second digest (and a few digests near z0); when the
    first call rejected, the genuine signature is for z and is first offered under z0"""
    from buidl import pecc
    d, z, z0 = w["d"], w["z"], w["z0"]
    hist = []
    if w.get("first"):
        sig = pk.sign(z0 % (1 << 256))
        seconds = [z, z0 ^ 1, (z0 + N) % (1 << 256), 0, N - 1]
        firsts = [z0] * len(seconds)
    else:
        sig = pk.sign(z % (1 << 256))
        seconds = [z, z]
        firsts = [z0, z ^ 1]
    for za, zb in zip(firsts, seconds):
        pt = pecc.S256Point.parse(pk.point.sec())
        try:
            a = bool(pt.verify(za, sig))
        except Exception:
            a = False
        try:
            got = bool(pt.verify(zb, sig))
        except Exception:
            got = False
        want = ref_verify(pt, zb, sig.r, sig.s)
        hist.append((a, got, want))
        if got != want:
            return {"violated": True, "observed": f"on one point object verify(z0={za:#x}, sig) = {a}, then verify(z={zb:#x}, same sig) = {got}; "
                                                  f"specification = {want} (r={sig.r:#x}, s={sig.s:#x})"}
    return {"violated": False, "observed": f"histories agree with the specification: {hist}"}


def replay_verify(w):
    """the model's X values are uninterpreted, so rebuild the witness class on the real curve: take a genuine signature for
    (d, z) and move r, s out of range by the same multiples of N as the model"""
    from buidl import pecc
    d, z, r, s = w["d"], w["z"], w["r"], w["s"]
    pk = pecc.PrivateKey(d)
    if "d0" in w:
        return _replay_verify_history2(pk, w)
    if "z0" in w:
        return _replay_verify_history(pk, w)
    sig = pk.sign(z % (1 << 256))
    cands = []
    kr, ks = (r - (r % N)) // N, (s - (s % N)) // N
    cands.append((sig.r + kr * N, sig.s + ks * N))
    cands.append((sig.r + kr * N, (N - sig.s) + ks * N))
    cands.append((r, s))
    for (rr, ss) in cands:
        try:
            got = bool(pk.point.verify(z, pecc.Signature(rr, ss)))
        except Exception:
            got = False
        want = ref_verify(pk.point, z, rr, ss)
        if got != want:
            return {"violated": True, "observed": f"verify(z={z:#x}, r={rr:#x}, s={ss:#x}) = {got}, specification = {want} (s = genuine s {ks:+d}*N, r {kr:+d}*N)"}
    # the same class with the model's own residues: a tuple whose s (and r) are exactly the model's values, made valid by
    # solving the digest for a chosen nonce (z2 = s0*k - r0*d mod N)
    s0 = s % N
    if s0:
        for k in (1, 2, 3, 5):
            r0 = (k * pecc.G).x.num
            z2 = (s0 * k - r0 * d) % N
            for (rr, ss) in ((r0 + kr * N, s), (r0, s), (r0 + kr * N, s0)):
                try:
                    got = bool(pk.point.verify(z2, pecc.Signature(rr, ss)))
                except Exception:
                    got = False
                want = ref_verify(pk.point, z2, rr, ss)
                if got != want:
                    return {"violated": True, "observed": f"verify(z={z2:#x}, r={rr:#x}, s={ss:#x}) = {got}, specification = {want} "
                                                          f"(digest solved for nonce {k} so that s mod N is the model's)"}
    return {"violated": False, "observed": "no disagreement on the reconstructed tuples"}


# ---------------------------------------------------------------------------------------- O4 DER


def spec_der_int(v, nbytes):
    """X.690 INTEGER content for a positive v of exactly nbytes significant bytes (top byte non-zero)"""
    b = v.to_bytes(nbytes, "big")
    if b[0] >= 0x80:
        b = b"\x00" + b
    return b


def _der_path(rn, sn):
    pecc = loader.load("pecc")
    r = SI.var("r", 1 << (8 * (rn - 1)), min((1 << (8 * rn)) - 1, N - 1))
    s = SI.var("s", 1 << (8 * (sn - 1)), min((1 << (8 * sn)) - 1, N - 1))
    wit = lambda env: {"r": env["r"], "s": env["s"]}  # noqa
    sig = pecc.Signature(r, s)
    der = sig.der()
    rb = spec_der_int(r, rn)
    sb = spec_der_int(s, sn)
    body = bytes([2, len(rb)]) + rb + bytes([2, len(sb)]) + sb
    want = bytes([0x30, len(body)]) + body
    check((len(der) == len(want)) and (der == want), "DER encoding differs from X.690 (30 len 02 len r 02 len s, minimal integers)", witness=wit)
    back = pecc.Signature.parse(der)
    check(s_and(back.r == r, back.s == s), "parse(der(sig)) != sig", witness=wit)
    return len(der)


def ob_der(sizes):
    runs = []
    for rn in sizes:
        for sn in sizes:
            runs.append(sym_run(lambda: _der_path(rn, sn)))
    m = merge_runs(runs)
    m["sample"] = {"r,s": "symbolic with exactly n significant bytes", "n": list(sizes)}
    return m


def replay_der(w):
    from buidl import pecc
    r, s = w["r"], w["s"]
    der = pecc.Signature(r, s).der()
    rb = spec_der_int(r, (r.bit_length() + 7) // 8)
    sb = spec_der_int(s, (s.bit_length() + 7) // 8)
    body = bytes([2, len(rb)]) + rb + bytes([2, len(sb)]) + sb
    want = bytes([0x30, len(body)]) + body
    back = pecc.Signature.parse(der)
    return {"violated": der != want or (back.r, back.s) != (r, s), "observed": f"der={der.hex()} want={want.hex()}"}


def _der_parse_path(n):
    """Signature.parse on arbitrary bytes: either a declared error, or a value whose re-encoding structure is consistent"""
    pecc = loader.load("pecc")
    raw = SBytes.sym("b", n) if n else b""
    wit = lambda env: {"raw": bytes_env(env, "b", n).hex()}  # noqa
    try:
        sig = pecc.Signature.parse(raw)
    except (RuntimeError, IndexError, ValueError):
        check(True, "rejected")
        return "rejected"
    # accepted: the header fields must describe the string exactly
    rl = raw[3]
    check(s_and(raw[0] == 0x30, raw[1] == n - 2, raw[2] == 2, raw[4 + core.concretize(rl)] == 2), "accepted string is not 30 len 02 .. 02 ..", witness=wit)
    return "accepted"


def ob_der_parse(maxn):
    runs = [sym_run(lambda: _der_parse_path(n), timeout_ms=30000) for n in range(0, maxn + 1)]
    m = merge_runs(runs)
    m["sample"] = {"raw": f"arbitrary bytes, length 0..{maxn}"}
    return m


def replay_der_parse(w):
    from buidl import pecc
    raw = bytes.fromhex(w["raw"])
    try:
        pecc.Signature.parse(raw)
    except (RuntimeError, IndexError, ValueError):
        return {"violated": False, "observed": "rejected"}
    rl = raw[3]
    ok = raw[0] == 0x30 and raw[1] == len(raw) - 2 and raw[2] == 2 and raw[4 + rl] == 2
    return {"violated": not ok, "observed": f"accepted {raw.hex()}"}


# ---------------------------------------------------------------------------------------- O5 end-to-end cross-check on toy groups


def _toy_path(p, q, dmin, dmax, zmax):
    """no abstraction at all: the real Point/S256Point arithmetic over y^2 = x^3 + 7 / F_p with prime group order q (module
    constants re-bound), z3 bit-vectors only.  Cross-checks the abstract-group + canonical-form route of O1/O3 end to end."""
    from checks.c03 import Toy, ref_mul
    t = Toy(p, q)
    try:
        m = t.m
        d = SI.var("d", dmin, dmax)
        k = SI.var("k", 1, q - 1)
        z = SI.var("z", 0, zmax)
        wit = lambda env: {"p": p, "q": q, "d": env["d"], "k": env["k"], "z": env["z"]}  # noqa
        pk = m.PrivateKey(d)
        pk.deterministic_k = lambda zz: k
        kv = core.concretize(k)
        rx = ref_mul(p, kv, t.g)[0]
        if not (1 <= rx < q):
            return "r-out-of-range"  # ECDSA retry / x >= n region (excluded in O1 by the stated assumption as well)
        sig = pk.sign(z)
        dv = core.concretize(d)
        s0 = (z + rx * dv) * pow(kv, -1, q) % q
        if bool(s0 == 0):
            return "s-zero"
        check(sig.r == rx, "toy: r", witness=wit)
        check(s_and(s_or(sig.s == s0, sig.s == q - s0), sig.s >= 1, sig.s <= (q - 1) // 2), "toy: s equation / low-S", witness=wit)
        check(bool(pk.point.verify(z, sig)), "toy: verify rejects the signature sign() produced", witness=wit)
        return "ok"
    finally:
        t.close()


def ob_toy(p, q, dmin, dmax, zmax):
    r = sym_run(lambda: _toy_path(p, q, dmin, dmax, zmax), timeout_ms=30000, max_paths=2000000)
    r["sample"] = {"toy group": f"y^2=x^3+7 / F_{p}, order {q}", "d": f"{dmin}..{dmax}", "k": f"1..{q - 1}", "z": f"0..{zmax}"}
    return r


def replay_toy(w):
    from buidl import pecc as m
    from checks.c03 import curve_points, ref_mul, ref_add
    p, q = w["p"], w["q"]
    saved = (m.P, m.N, m.G)
    m.P, m.N = p, q
    g = curve_points(p)[0]
    m.G = m.S256Point(*g)
    try:
        pk = m.PrivateKey(w["d"])
        pk.deterministic_k = lambda zz: w["k"]
        rx = ref_mul(p, w["k"], g)[0]
        sig = pk.sign(w["z"])
        s0 = (w["z"] + rx * w["d"]) * pow(w["k"], -1, q) % q
        bad = sig.r != rx or sig.s not in (s0, q - s0) or not (1 <= sig.s <= (q - 1) // 2) or not pk.point.verify(w["z"], sig)
        if "r" in w:
            try:
                got = bool(pk.point.verify(w["z"], m.Signature(w["r"], w["s"])))
            except Exception:
                got = False
            want = False
            if 1 <= w["r"] < q and 1 <= w["s"] < q:
                si = pow(w["s"], -1, q)
                tot = ref_add(p, ref_mul(p, w["z"] * si % q, g), ref_mul(p, w["r"] * si % q, ref_mul(p, w["d"], g)))
                want = tot is not None and tot[0] == w["r"]
            bad = got != want
        return {"violated": bool(bad), "observed": f"toy F_{p}/{q}: {w}"}
    finally:
        m.P, m.N, m.G = saved


# ---------------------------------------------------------------------------------------- trusted-base constants

def _constants():
    from buidl import pecc
    def is_prime(n):
        import random
        rnd = random.Random(1)
        if n % 2 == 0:
            return False
        d, r = n - 1, 0
        while d % 2 == 0:
            d //= 2
            r += 1
        for _ in range(40):
            a = rnd.randrange(2, n - 1)
            x = pow(a, d, n)
            if x in (1, n - 1):
                continue
            for _ in range(r - 1):
                x = x * x % n
                if x == n - 1:
                    break
            else:
                return False
        return True
    ok = pecc.N == N and pecc.P == P and is_prime(N) and is_prime(P)
    return ok, f"pecc.N/P equal the constants used by the field model and are (Miller-Rabin) prime: {ok}"


def ob_constants():
    return conc_run(_constants, "N, P constants and primality")


def obligations(tier):
    q = tier == "quick"
    obs = [Ob("O0-constants", ob_constants),
           Ob("O1-sign-lowS-complete", ob_sign, replay="sign"),
           Ob("O2-rfc6979", ob_rfc6979, {"draws": 3 if q else 5}, replay="rfc6979"),
           Ob("O3-verify-spec", ob_verify, replay="verify"),
           Ob("O3-verify-history", ob_verify_history, replay="verify"),
           Ob("O3-verify-history-other-key", ob_verify_history2, replay="verify", budget_s=900)]
    sizes = [32, 31, 30, 29] if q else list(range(32, 0, -1))
    for i in range(0, len(sizes), 4):
        obs.append(Ob("O4-der", ob_der, {"sizes": tuple(sizes[i:i + 4])}, replay="der"))
    obs.append(Ob("O4-der-parse", ob_der_parse, {"maxn": 9 if q else 11}, replay="der_parse", budget_s=1500))
    if q:
        obs.append(Ob("O5-toy-end-to-end", ob_toy, {"p": 43, "q": 31, "dmin": 1, "dmax": 4, "zmax": 8}, replay="toy", budget_s=1500))
    else:
        for dlo in range(1, 31, 3):
            obs.append(Ob("O5-toy-end-to-end", ob_toy, {"p": 43, "q": 31, "dmin": dlo, "dmax": min(dlo + 2, 30), "zmax": 33}, replay="toy",
                          budget_s=6000))
    return obs
