"""C06 — input verification accepts properly signed spends and nothing unauthorised (DESIGN.md section 3, C06).

Ideal-signature abstraction.  Inside the shimmed copy of buidl (sbuidl.op / sbuidl.taproot / sbuidl.script / sbuidl.tx
name spaces, patched in the worker process only):

  * `S256Point`            -> KeyStub: carries the key *encoding* (33/65-byte SEC or 32-byte x-only); the real length / prefix
                              checks of parse / parse_sec are kept;
  * `Signature.parse`      -> SigStub: one fork on the DER well-formedness predicate `der_wf` (shown equal to the accept set of
                              the real parser by the lemma obligation O0), the object carries the DER bytes;
  * `SchnorrSignature.parse` -> SchnorrStub (length >= 32, s < N as in the real parser);
  * `point.verify(z, sig)` -> uninterpreted predicate ValidE(key encoding, z, DER bytes); `verify_schnorr` -> ValidS(x-only key, msg, sig);
  * `point.tweaked_key(root)` -> uninterpreted (TWX, TWP)(x-only key, TapTweak hash), injective (taproot commitment binding);
  * hashes are uninterpreted on symbolic input, with collision-freeness instances asserted for every pair of calls.

Everything else — Tx.verify_input, Script.evaluate, the opcode functions, Tx.sig_hash*, Witness, ControlBlock, TapLeaf — is the
real code of /repo running on symbolic scriptSig / witness items chosen by the solver.

Authorisation oracle (spec): an accepted spend must carry, among its scriptSig pushes / witness items, signatures that are Valid
for at least m distinct script keys on the digest of *this* transaction computed with the committed script (the reference digest
is computed by the harness with explicit script code, not through Tx.sig_hash's own script selection), and the commitment-relevant
script / control block must be the committed one.
"""
import itertools

from symx import core, loader, shims
from symx.core import (SI, SB, SBytes, check, s_and, s_or, s_not, norm, wrapb, wrap, lift,
                       b_cmp, b_and, b_or, b_not, n_uf, n_cat, n_byte, const, TRUE, FALSE)
from vlib.run import Ob, sym_run, merge_runs

PROPERTY = "C06"

META = {
    "bounds": {
        "quick": {
            "templates": "P2PKH, P2WPKH, P2SH-P2WPKH, P2SH multisig 1-of-1 / 1-of-2 / 2-of-2 / 2-of-3, P2WSH multisig 1-of-2 / 2-of-3, "
                         "P2SH-P2WSH 1-of-2, P2TR (single-leaf tree: key path and CHECKSIG leaf), P2TR CHECKSIGADD 1-of-2 / 2-of-2 / 2-of-3",
            "attacker spends (O1)": "332 scriptSig x witness shapes (enumerated sizes): up to n+3 items per side; item lengths from "
                                    "{0, 1, 2, 22, 33, 34, 64, 65, 71, 72} with every byte symbolic (in shapes with several signature-sized items "
                                    "the hash-type byte of the 2nd.. is fixed to SIGHASH_ALL), symbolic opcodes from {OP_0, OP_1, OP_NOP, OP_DROP, OP_DUP} "
                                    "before / between / after the pushes, the genuine redeem / witness / leaf script and control block, the "
                                    "attacker's own ('foreign') script / control block of the same shape, annex items of 1, 2, 33 bytes; "
                                    "keys (33-byte compressed SEC resp. 32-byte x-only, pairwise distinct), internal key, outpoint, sequence, "
                                    "amounts, version in {1,2}, locktime all symbolic; 1 input, plus the proper shapes as input 1 of 2",
            "library-built spends (O2/O3)": "every signer subset (tapscript: subsets of size <= m) plus a duplicated signer, through sign_input / "
                                            "get_sig_* / finalize_* / initialize+finalize_p2tr_multisig / sign_p2tr_keypath; O3: the committed "
                                            "hash / output key replaced by any different value",
            "leaf switch on one object (O4)": "P2TR outputs whose tree has two tapscript multisig leaves sharing a signer, built through "
                                              "MultiSigTapScript / TapBranch / ControlBlock (one path hash): {2-of-{k0,k1} | 1-of-{k0}}, "
                                              "{1-of-{k0,k1} | 1-of-{k1}}, {2-of-{k0,k1,k2} | 1-of-{k0,k2}}, either leaf first; history on ONE Tx / "
                                              "TxIn / Witness object: initialize_p2tr_multisig(leaf X), get_sig_taproot by every signer subset of "
                                              "size <= k, finalize_p2tr_multisig, witness emptied (items = [] ; for the full signer set also "
                                              "del items[:] and a new Witness), initialize(leaf Y), every signer subset of size <= k signs, "
                                              "finalize with the leaf-X signatures handed in too; keys, internal key, signatures, tx fields symbolic",
            "signatures made for another hash type (O1)": "in every multi-signature shape of the ECDSA multisig templates each signature may be Valid on the digest of "
                                                          "another signature's hash-type byte (it authorises only through its own byte); the "
                                                          "first signature's byte is fully symbolic, the others are SIGHASH_ALL",
            "DER lemma (O0)": "all byte strings of length 0..13"},
        "thorough": {"templates": "adds 1-of-3, 3-of-3, 2-of-4, 3-of-5 P2SH, 1-of-1 / 2-of-2 / 3-of-3 / 2-of-4 P2WSH, 2-of-3 P2SH-P2WSH, "
                                  "1-of-3 / 3-of-3 / 3-of-5 CHECKSIGADD", "attacker spends (O1)": "same shape grammar", "DER lemma (O0)": "length 0..14",
                     "leaf switch on one object (O4)": "adds {2-of-{k0,k1} | 1-of-{k1}}, {2-of-{k0,k1} | 1-of-{k0,k1}}, {2-of-{k0,k1} | 2-of-{k1,k2}}, "
                                                       "{3-of-3 | 2-of-3}, {3-of-{k0..k3} | 2-of-{k1,k3}}; every case with all three reset idioms and "
                                                       "with / without handing in the first-leaf signatures"}},
    "outside": ["scripts other than the listed standard templates; in the attacker obligations (O1) taproot trees with more than one leaf (the "
                "control block carries no path hashes); two-leaf trees are covered for library-built spends only (O4), deeper trees, "
                "timelocked leaves (CLTV / CSV prefix) and more than one switch of leaf per object are outside",
                "judgement call (O4): after the witness of an input was emptied and the input initialised for another leaf, 'reported valid' "
                "is what finalize_p2tr_multisig returns (it ends in verify_input); signatures made while the input pointed at the other leaf "
                "may be handed to the finaliser and must simply not count; signer sets larger than k are not exercised (see below)",
                "signatures Valid on the digest of a hash-type byte that no signature in the spend carries (Schnorr: cross-hash-type "
                "validity is not enumerated, the per-item hash type is symbolic)",
                "uncompressed script keys (an attacker-supplied 65-byte key item is in the bound, script keys are compressed)",
                "elliptic-curve membership of attacker-supplied keys / nonces and degenerate signature values (s = 0 mod N): the real code raises "
                "there, which cannot turn a rejection into an acceptance",
                "signatures over a different transaction are covered through the digest argument of the Valid predicate (a signature is only "
                "assumed / counted valid for the digest it was made for); that every committed field reaches the digest is C05",
                "fee / relay rule of Tx.verify(); Script.evaluate called directly (the property observes Tx.verify_input)",
                "tapscript k-of-n signed by more than k keys (CHECKSIGADD .. k EQUAL rejects it by design: not 'the required keys')",
                "judgement call: a spend that carries valid signatures of m distinct script keys on this transaction is counted authorised even "
                "when its other items are unusual; a spend presenting a foreign script / control block must be rejected whatever it carries"],
    "stubs": ["S256Point (inside sbuidl.op / taproot / script only) -> stand-in carrying the key encoding; parse / parse_sec / parse_xonly keep the "
              "real length and prefix checks",
              "S256Point.verify(z, sig) -> uninterpreted predicate ValidE(key encoding, z, DER bytes); verify_schnorr(msg, sig) -> "
              "ValidS(x-only key, msg, 64-byte signature), false for signatures that are not 64 bytes after the hash-type byte is removed",
              "Signature.parse -> one fork on a closed-form well-formedness predicate, shown equal to the accept set of the real parser by "
              "obligation O0 (real pecc.Signature.parse on symbolic strings); SchnorrSignature.parse -> length >= 32 and s < N",
              "S256Point.tweaked_key -> uninterpreted (x, parity) of (x-only key, TapTweak hash)",
              "PrivateKey (O2/O3 only) -> signer whose sign()/sign_schnorr() return fresh symbolic signatures assumed Valid for its own key on "
              "the signed digest and for no other script key",
              "sha256 / ripemd160 uninterpreted on symbolic input, real on concrete input; print() empty"],
    "assumptions": ["ideal signatures: the solver chooses freely which (key, digest, signature) triples are Valid; one signature is Valid for at most "
                    "one key (over its own digest and the digests of the other hash-type bytes present in the spend)",
                    "O4 / O2-edited: an honest signature is Valid only for the digest it was made for",
                    "collision freeness, asserted per pair of hash calls on a path: equal digests imply equal inputs (also against digests "
                    "of constants and across input lengths)",
                    "taproot commitment binding: tweaked_key is injective in (internal key, tweak)",
                    "script keys are fixed before the spend exists: a script key is neither a SHA-256 image of data in the spend nor a tweaked output key",
                    "a committed hash / output key is not a script-number zero (probability < 2^-150)"],
}

MANIFEST = {"technique": "symbolic execution (symx, z3 bit-vectors + uninterpreted functions) of the real Tx.verify_input / Script.evaluate / "
                         "opcode / sig_hash code on attacker-chosen symbolic scriptSig and witness items under an ideal-signature "
                         "abstraction; z3 decides on every path whether acceptance implies authorisation; every solver witness is "
                         "replayed with real keys and real signatures on the native code"}

N_ORDER = 0xFFFFFFFFFFFFFFFFFFFFFFFFFFFFFFFEBAAEDCE6AF48A03BBFD25E8CD0364141

# ------------------------------------------------------------------------------------------------ helpers


def _node(b):
    """big-endian integer node of a byte string"""
    return n_cat([lift(i) for i in b])


def _eqb(a, b):
    """SB/bool: byte strings equal (False for different lengths)"""
    if len(a) != len(b):
        return False
    if len(a) == 0:
        return True
    if isinstance(a, (bytes, bytearray)) and isinstance(b, (bytes, bytearray)):
        return bytes(a) == bytes(b)
    return core.sbytes(a) == b


def _cb(v, env=None):
    """concrete bytes of a possibly symbolic byte string under the current solver model (uninterpreted terms included)"""
    if isinstance(v, (bytes, bytearray)):
        return bytes(v)
    c = core.ctx()
    return bytes(i if isinstance(i, int) else core.model_int(c.model, i.n, c.mode) for i in v)


def assume_nq(p):
    """harness precondition that cannot make the current path infeasible by itself (definitional instances, constraints on
    fresh variables): appended to the path condition without the feasibility query of core.assume"""
    if isinstance(p, SB):
        p = p.n
    elif isinstance(p, bool):
        if p:
            return
        raise core.PathAbort()
    c = core.ctx()
    c.pc.append(c.lower(p))
    c.pcn.append(p)
    c.assumed.append(p)


_orig_branch = core.branch


def _branch_cached(p):
    """a condition that is literally on the path already (or its negation) is decided without a solver query"""
    c = core.CTX
    if c is not None and p is not TRUE and p is not FALSE:
        np_ = b_not(p)
        for q in c.pcn:
            if q is p:
                return True
            if q is np_:
                return False
            if q.op == "band" and p in q.args:
                return True
    return _orig_branch(p)


_TACTIC = [None]  # set in mods(): z3.Then("simplify", "solve-eqs", "smt") halves the time of this check's queries


def _fresh_query(self, extra, timeout_ms=None):
    """same contract as Ctx.query; a fresh solver per query instead of push/pop on the incremental one (the queries of this
    check — wide uninterpreted-function arguments — are 5-8 times faster through z3's non-incremental pipeline)"""
    import time
    import z3
    t = time.time()
    s = _TACTIC[0].solver() if _TACTIC[0] is not None else z3.Solver()
    s.set("timeout", timeout_ms or self.timeout_ms)
    s.add(self.solver.assertions())
    s.add(*self.pc)
    s.add(*extra)
    rs = str(s.check())
    self.model = s.model() if rs == "sat" else None
    self.stats.solver_s += time.time() - t
    self.stats.q[rs] += 1
    return rs


def der_wf(b):
    """accept set of pecc.Signature.parse (lemma O0): 30 len 02 rl r.. 02 sl s.. with rl, sl >= 1 and exact lengths"""
    n = len(b)
    if n < 8 or n - 2 > 255:
        return False
    alts = []
    for rl in range(1, n - 6):
        alts.append(s_and(b[3] == rl, b[4 + rl] == 2, b[5 + rl] == n - 6 - rl))
    return s_and(b[0] == 0x30, b[1] == n - 2, b[2] == 2, s_or(*alts))


# ------------------------------------------------------------------------------------------------ stand-ins

class _State:
    hash_calls = []
    conc_hashes = {}
    nohash = []
    tw_calls = []
    nsig = 0
    inj = True


ST = _State()


def valid_ecdsa(key_enc, z, der):
    """uninterpreted ValidE(key encoding, digest, DER bytes)"""
    lk, ld = len(key_enc), len(der)
    node = n_uf(f"ValidE_{lk}_{ld}", 1, [_node(key_enc), lift(z), _node(der)], (8 * lk, 256, 8 * ld))
    return wrapb(b_cmp("eq", node, const(1)))


def valid_schnorr(key_x, msg, sig):
    lk, lm, ls = len(key_x), len(msg), len(sig)
    node = n_uf(f"ValidS_{lk}_{lm}_{ls}", 1, [_node(key_x), _node(msg), _node(sig)], (8 * lk, 8 * lm, 8 * ls))
    return wrapb(b_cmp("eq", node, const(1)))


# honest signatures made on this path (key encoding, digest, signature): an ideal signature is valid only for the digest it was
# made for (unforgeability) -- instantiated where a verification of the same signature bytes on ANOTHER digest is asked (O2-edited)
SIGNED_E = []
SIGNED_S = []
UNFORGEABLE = [False]


def verify_ecdsa_ideal(key_enc, z, der):
    r = valid_ecdsa(key_enc, z, der)
    if UNFORGEABLE[0]:
        for (k0, z0, d0) in SIGNED_E:
            if len(d0) == len(der) and len(k0) == len(key_enc) and (d0 is der or bool(core.sbytes(d0) == der)):
                assume_nq(s_or(s_not(r), lift_eq(z, z0)))
    return r


def verify_schnorr_ideal(key_x, msg, sig):
    r = valid_schnorr(key_x, msg, sig)
    if UNFORGEABLE[0]:
        for (k0, m0, s0) in SIGNED_S:
            if len(s0) != len(sig) or len(m0) != len(msg):
                continue
            if s0 is sig:
                assume_nq(s_or(s_not(r), core.sbytes(m0) == msg))
            else:  # no fork on whether two signatures coincide
                assume_nq(s_or(s_not(r), core.sbytes(s0) != sig, core.sbytes(m0) == msg))
    return r


def lift_eq(a, b):
    return a == b


class SigStub:
    def __init__(self, der):
        self.der_bytes = der

    def der(self):
        return self.der_bytes

    @classmethod
    def parse(cls, b):
        if not der_wf(b):
            raise RuntimeError("Bad Signature")
        return cls(b)


class SchnorrStub:
    def __init__(self, raw):
        self.raw = raw

    def serialize(self):
        return self.raw

    @classmethod
    def parse(cls, b):
        if len(b) < 32:
            raise ValueError("Unknown public key format")
        rest = b[32:]
        if len(rest) >= 32:
            s = core.int_from_bytes(rest, "big")
            if s >= N_ORDER:
                raise ValueError("s is greater than or equal to N")
        return cls(b)


class KeyStub:
    """stands for S256Point: the encoding is the identity of the key"""

    def __init__(self, enc, parity=None):
        self.enc = enc
        self._parity = parity

    # -- encodings
    def sec(self, compressed=True):
        if len(self.enc) == 32:
            raise core.Unsupported("sec() of an x-only stand-in key")
        return self.enc

    def xonly(self):
        return self.enc if len(self.enc) == 32 else self.enc[1:33]

    @property
    def parity(self):
        if self._parity is not None:
            return self._parity
        if len(self.enc) == 32:
            return 0
        return self.enc[0] & 1

    def __eq__(self, o):
        return isinstance(o, KeyStub) and _eqb(self.enc, o.enc)

    def __hash__(self):
        return id(self)

    # -- the abstraction
    def verify(self, z, sig):
        return verify_ecdsa_ideal(self.enc, z, sig.der_bytes)

    def verify_schnorr(self, msg, sig):
        if len(sig.raw) != 64:
            return False
        return verify_schnorr_ideal(self.xonly(), msg, sig.raw)

    def tweak(self, merkle_root=b""):
        return loader.load("hash").hash_taptweak(self.xonly() + merkle_root)

    def tweaked_key(self, merkle_root=b"", tweak=None):
        if tweak is None:
            tweak = self.tweak(merkle_root)
        px, t = _node(self.xonly()), _node(tweak)
        x = n_uf("TWX", 256, [px, t], (256, 256))
        p = n_uf("TWP", 1, [px, t], (256, 256))
        for (px2, t2, x2) in ST.tw_calls:
            if x2 is not x:
                assume_nq(wrapb(b_or(b_not(b_cmp("eq", x, x2)), b_and(b_cmp("eq", px, px2), b_cmp("eq", t, t2)))))
        if all(x is not c[2] for c in ST.tw_calls):
            ST.tw_calls.append((px, t, x))
            # a script key fixed before the output exists is not a tweaked output key (which commits to the script)
            for v in ST.nohash:
                assume_nq(wrapb(b_not(b_cmp("eq", x, v))))
        return KeyStub(SBytes([wrap(n_byte(x, 31 - i)) for i in range(32)]), parity=wrap(p))

    def even_point(self):
        return self

    # -- derived scripts: the real methods, they only use sec()/xonly()
    def hash160(self, compressed=True):
        return loader.load("helper").hash160(self.sec(compressed))

    def p2pkh_script(self, compressed=True):
        return loader.load("script").P2PKHScriptPubKey(self.hash160(compressed))

    def p2wpkh_script(self):
        return loader.load("script").P2WPKHScriptPubKey(self.hash160(True))

    def p2sh_p2wpkh_redeem_script(self):
        return self.p2wpkh_script().redeem_script()

    def p2tr_script(self, merkle_root=b"", tweak=None):
        return loader.load("script").P2TRScriptPubKey(self.tweaked_key(merkle_root, tweak).xonly())

    # -- parsers (real length / prefix checks)
    @classmethod
    def parse(cls, binary):
        if len(binary) == 32:
            return cls.parse_xonly(binary)
        elif len(binary) in (33, 65):
            return cls.parse_sec(binary)
        raise ValueError("Unknown public key format")

    @classmethod
    def parse_sec(cls, sec_bin):
        # the real checks: 04 <=> 65 bytes, otherwise 33 bytes with prefix 02 / 03 (curve membership is not modelled)
        if sec_bin[0] == 4:
            if len(sec_bin) != 65:
                raise ValueError("SEC length does not match its prefix")
            return cls(sec_bin)
        if len(sec_bin) != 33:
            raise ValueError("SEC length does not match its prefix")
        if not s_or(sec_bin[0] == 2, sec_bin[0] == 3):  # one condition: no fork on which of the two it is
            raise ValueError("Unknown SEC prefix")
        return cls(sec_bin)

    @classmethod
    def parse_xonly(cls, b):
        if len(b) != 32:
            raise ValueError("x-only key must be 32 bytes")
        return cls(b)


class PrivStub:
    """signer: sign() returns a fresh symbolic signature that is assumed Valid for the signer's key on the signed digest"""

    def __init__(self, point, name, compressed=True, others=()):
        self.point = point
        self.name = name
        self.others = list(others)  # encodings of the other keys: an ideal signature is valid for its own key only
        self.compressed = compressed
        self.network = "mainnet"

    def sign(self, z):
        ST.nsig += 1
        r = SBytes.sym(f"sig{ST.nsig}.{self.name}.r", 32)
        s = SBytes.sym(f"sig{ST.nsig}.{self.name}.s", 32)
        assume_nq(s_and(r[0] >= 1, r[0] < 0x80, s[0] >= 1, s[0] < 0x80))
        der = b"\x30\x44\x02\x20" + r + b"\x02\x20" + s
        assume_nq(s_and(valid_ecdsa(self.point.enc, z, der), *[s_not(valid_ecdsa(o, z, der)) for o in self.others]))
        SIGNED_E.append((self.point.enc, z, der))
        return SigStub(der)

    def sign_schnorr(self, msg, aux=None):
        ST.nsig += 1
        raw = SBytes.sym(f"sig{ST.nsig}.{self.name}", 64)
        assume_nq(raw[32] < 0x80)
        assume_nq(s_and(valid_schnorr(self.point.xonly(), msg, raw), *[s_not(valid_schnorr(o, msg, raw)) for o in self.others]))
        SIGNED_S.append((self.point.xonly(), msg, raw))
        return SchnorrStub(raw)


_orig_uf_bytes = shims._uf_bytes
_ALGOS = ("sha256", "sha1", "sha512", "ripemd160")


def _uf_bytes_inj(name, outlen, parts):
    """the engine's uninterpreted hash plus eager collision-freeness instances against every earlier call on this path"""
    before = len(shims.HASH_CALLS)
    r = _orig_uf_bytes(name, outlen, parts)
    if not ST.inj or name not in _ALGOS:
        return r
    fname, node = shims.HASH_CALLS[before]
    conds = []
    for (fn2, n2) in ST.hash_calls:
        if n2 is node:
            return r
        if fn2.split("_")[0] != name:
            continue
        if fn2 == fname:
            conds.append(b_or(b_not(b_cmp("eq", node, n2)), b_and(*[b_cmp("eq", a, b) for a, b in zip(node.args[3:], n2.args[3:])])))
        else:
            conds.append(b_not(b_cmp("eq", node, n2)))
    ST.hash_calls.append((fname, node))
    if name == "sha256":
        for v in ST.nohash:
            conds.append(b_not(b_cmp("eq", node, v)))
    for (algo, d), rr in ST.conc_hashes.items():
        c = _conc_link(algo, d, rr, fname, node)
        if c is not None:
            conds.append(c)
    if conds:
        assume_nq(wrapb(b_and(*conds)))
    return r


_orig_digest = shims._H.digest


def _digest_linked(self):
    """concrete inputs are hashed for real; the value is linked to the uninterpreted symbols of the same algorithm
    (UF(x) == real(d)  =>  x == d), so that the solver cannot equate a committed hash with the hash of a constant"""
    d = norm(self.data) if isinstance(self.data, SBytes) else self.data
    if not isinstance(d, (bytes, bytearray)) or not ST.inj or self.algo not in _ALGOS:
        return _orig_digest(self)
    r = _orig_digest(self)
    key = (self.algo, bytes(d))
    if key not in ST.conc_hashes:
        ST.conc_hashes[key] = r
        conds = []
        for (fn2, n2) in ST.hash_calls:
            c = _conc_link(self.algo, bytes(d), r, fn2, n2)
            if c is not None:
                conds.append(c)
        if conds:
            assume_nq(wrapb(b_and(*conds)))
    return r


def _conc_link(algo, d, r, fname, node):
    if fname.split("_")[0] != algo:
        return None
    rv = const(int.from_bytes(r, "big"))
    if fname == f"{algo}_{len(d)}":
        return b_or(b_not(b_cmp("eq", node, rv)), b_cmp("eq", node.args[3], const(int.from_bytes(d, "big"))))
    return b_not(b_cmp("eq", node, rv))


class M:
    """the shimmed modules with the stand-ins installed (once per worker process)"""
    ready = False


def mods():
    if not M.ready:
        M.tx, M.script, M.witness, M.op = loader.load("tx"), loader.load("script"), loader.load("witness"), loader.load("op")
        M.taproot, M.helper, M.pecc, M.hash = loader.load("taproot"), loader.load("helper"), loader.load("pecc"), loader.load("hash")
        for mod in (M.op, M.taproot, M.script):
            mod.S256Point = KeyStub
        M.op.Signature = SigStub
        for mod in (M.op, M.taproot, M.tx):
            mod.SchnorrSignature = SchnorrStub
        shims._uf_bytes = _uf_bytes_inj
        shims._H.digest = _digest_linked
        core.branch = _branch_cached
        core.Ctx.query = _fresh_query
        import z3
        _TACTIC[0] = z3.Then("simplify", "solve-eqs", "smt")
        M.ready = True
    return M


def reset_path():
    ST.hash_calls = []
    ST.conc_hashes = {}
    ST.nohash = []
    ST.tw_calls = []
    ST.nsig = 0
    ST.inj = True
    del shims.HASH_CALLS[:]
    del SIGNED_E[:]  # honest signatures are per path
    del SIGNED_S[:]
    m = mods()
    return m


# ------------------------------------------------------------------------------------------------ templates

ECDSA_T = ("p2pkh", "p2wpkh", "p2sh-p2wpkh", "p2sh-ms", "p2wsh-ms", "p2sh-p2wsh-ms")
TAPROOT_T = ("p2tr-checksig", "p2tr-csa")
OPSET = (0, 81, 97, 117, 118)  # OP_0, OP_1, OP_NOP, OP_DROP, OP_DUP
TXVARS = ("pidx", "seq", "value", "amount", "version", "locktime")


class _Native:
    ready = False


def native_mods():
    if not _Native.ready:
        import buidl.tx, buidl.script, buidl.witness, buidl.op, buidl.taproot, buidl.helper, buidl.ecc  # noqa
        _Native.tx, _Native.script, _Native.witness, _Native.op = buidl.tx, buidl.script, buidl.witness, buidl.op
        _Native.taproot, _Native.helper, _Native.ecc = buidl.taproot, buidl.helper, buidl.ecc
        _Native.ready = True
    return _Native


def ms_commands(m, keys):
    return [80 + m] + list(keys) + [80 + len(keys), 174]


def tap_commands(name, m, xkeys):
    if name == "p2tr-csa":
        cmds = [xkeys[0], 0xAC]
        for k in xkeys[1:]:
            cmds += [k, 0xBA]
        return cmds + [80 + m, 0x87]
    return [xkeys[0], 0xAC]


class Tmpl:
    """one output to spend: scriptPubKey, script keys, the genuine redeem / witness / leaf script and control block, built
    through the Script / TapLeaf / ControlBlock classes of `md` (the shimmed modules with stand-in points, or the native
    modules with real points: the same construction serves the symbolic run and the replay)"""

    def __init__(self, md, name, m, n, points, internal=None):
        sc = md.script
        self.md, self.name, self.m, self.n = md, name, m, n
        self.points, self.internal_point = list(points), internal
        self.redeem = self.wscript = self.leaf = self.cb = self.internal = None
        self.redeem_cmds = self.wscript_cmds = self.leaf_cmds = None
        self.schnorr = name in TAPROOT_T
        self.need = m if name.endswith("-ms") or name == "p2tr-csa" else 1
        if not self.schnorr:
            self.keys = [p.sec() for p in points]
            k0 = points[0]
            if name == "p2pkh":
                self.spk = k0.p2pkh_script()
            elif name == "p2wpkh":
                self.spk = k0.p2wpkh_script()
            elif name == "p2sh-p2wpkh":
                rs = k0.p2sh_p2wpkh_redeem_script()
                self.redeem_cmds = list(rs.commands)
                self.redeem = rs.raw_serialize()
                self.spk = rs.script_pubkey()
            elif name == "p2sh-ms":
                self.redeem_cmds = ms_commands(m, self.keys)
                rs = sc.RedeemScript(list(self.redeem_cmds))
                self.redeem = rs.raw_serialize()
                self.spk = rs.script_pubkey()
            elif name in ("p2wsh-ms", "p2sh-p2wsh-ms"):
                self.wscript_cmds = ms_commands(m, self.keys)
                ws = sc.WitnessScript(list(self.wscript_cmds))
                self.wscript = ws.raw_serialize()
                self.spk = ws.script_pubkey()
                if name == "p2sh-p2wsh-ms":
                    rs = self.spk.redeem_script()
                    self.redeem_cmds = list(rs.commands)
                    self.redeem = rs.raw_serialize()
                    self.spk = rs.script_pubkey()
            else:
                raise KeyError(name)
        else:
            self.internal = internal.xonly()
            self.xkeys = [p.xonly() for p in points]
            self.leaf_cmds = tap_commands(name, m, self.xkeys)
            tl = md.taproot.TapLeaf(sc.Script(list(self.leaf_cmds)))
            self.tapleaf = tl
            self.leaf = tl.tap_script.raw_serialize()
            self.root = tl.hash()
            q = internal.tweaked_key(self.root)
            self.cb = md.taproot.ControlBlock(0xC0, q.parity, internal, []).serialize()
            self.outkey = q.xonly()
            self.spk = sc.P2TRScriptPubKey(self.outkey)
            # key 0 authorises the key path, keys 1.. the script path
            self.keys = [self.outkey] + self.xkeys


def sym_tmpl(name, m, n, pfx="k"):
    md = mods()
    if name in TAPROOT_T:
        encs = [SBytes.sym(f"{pfx}{i}", 32) for i in range(n)]
        internal = KeyStub(SBytes.sym(f"{pfx}.internal", 32))
        # a script key is not the SHA-256 image of data occurring in the spend (keys are fixed before the spend exists)
        ST.nohash += [_node(e) for e in encs]
    else:
        encs = []
        for i in range(n):
            b = SBytes.sym(f"{pfx}{i}", 33)
            assume_nq(s_or(b[0] == 2, b[0] == 3))
            encs.append(b)
        internal = None
    for a, b in itertools.combinations(encs, 2):
        assume_nq(core.sbytes(a[-32:]) != b[-32:])
    t = Tmpl(md, name, m, n, [KeyStub(e) for e in encs], internal)
    # a committed hash / output key is not a script-number zero (all bytes zero up to a sign bit; probability < 2^-150)
    cv = committed_value(t)
    assume_nq(s_or(*[cv[i] != 0 for i in range(len(cv) - 1)]))
    return t


def sym_fields():
    return {"prev": SBytes.sym("prev", 32), "pidx": SI.var("pidx", 0, 0xFFFFFFFF), "seq": SI.var("seq", 0, 0xFFFFFFFF),
            "value": SI.var("value", 0, (1 << 63) - 1), "amount": SI.var("amount", 0, (1 << 63) - 1),
            "version": SI.var("version", 1, 2), "locktime": SI.var("locktime", 0, 0xFFFFFFFF)}


def build_tx(md, spk, ss_cmds, wit_items, n_in, idx, f):
    txm, sc, wi = md.tx, md.script, md.witness
    ins = []
    for i in range(n_in):
        if i == idx:
            ti = txm.TxIn(f["prev"], f["pidx"], sc.Script(list(ss_cmds)), f["seq"])
            ti._value = f["value"]
            ti._script_pubkey = spk
            ti.witness = wi.Witness(list(wit_items))
        else:
            ti = txm.TxIn(bytes([0x70 + i]) * 32, i, sc.Script([]), 0xFFFFFFFD)
            ti._value = 5000 + i
            ti._script_pubkey = sc.P2WPKHScriptPubKey(bytes([0x60 + i]) * 20)
        ins.append(ti)
    outs = [txm.TxOut(f["amount"], sc.P2WPKHScriptPubKey(b"\x42" * 20))]
    for i in range(1, n_in):
        outs.append(txm.TxOut(1000 + i, sc.P2PKHScriptPubKey(bytes([0x50 + i]) * 20)))
    return txm.Tx(f["version"], ins, outs, f["locktime"], network="mainnet", segwit=True)


def ref_digest(t, f, n_in, idx, ht, annex=None, ext=0):
    """digest of this transaction for hash type ht with the *committed* script code: explicit arguments to the real
    sig_hash_legacy / sig_hash_bip143 / sig_hash_bip341 on a reference copy of the transaction (same fields, canonical
    witness); Tx.sig_hash's own selection of the script from the scriptSig / witness under test is not used"""
    md = t.md
    sc = md.script
    if t.schnorr:
        items = [b"\x00" * 64] if ext == 0 else [t.leaf, t.cb]
        if annex is not None:
            items = items + [annex]
        ref = build_tx(md, t.spk, [], items, n_in, idx, f)
        return ref.sig_hash_bip341(idx, ext_flag=ext, hash_type=ht)
    ref = build_tx(md, t.spk, [], [], n_in, idx, f)
    if t.name == "p2pkh":
        return ref.sig_hash_legacy(idx, None, ht)
    if t.name == "p2sh-ms":
        return ref.sig_hash_legacy(idx, sc.RedeemScript(list(t.redeem_cmds)), ht)
    if t.name == "p2wpkh":
        return ref.sig_hash_bip143(idx, None, None, ht)
    if t.name == "p2sh-p2wpkh":
        return ref.sig_hash_bip143(idx, sc.RedeemScript(list(t.redeem_cmds)), None, ht)
    return ref.sig_hash_bip143(idx, None, sc.WitnessScript(list(t.wscript_cmds)), ht)


# ------------------------------------------------------------------------------------------------ O1: attacker-chosen spends

def parse_shape(s):
    out = []
    for tok in [x for x in s.split(",") if x]:
        i = 0
        while i < len(tok) and not tok[i].isdigit():
            i += 1
        out.append((tok[:i],) if i == len(tok) else (tok[:i], int(tok[i:])))
    return out


SLOT_SRC = {"redeem": "redeem", "wscript": "wscript", "leaf": "leaf", "cb": "cb",
            "fredeem": "redeem", "fwscript": "wscript", "fleaf": "leaf", "fcb": "cb"}


class Spend:
    """materialised attacker spend: commands / items plus the bookkeeping the oracle and the witness need.
    slot kinds: pL (push of L symbolic bytes), annexL (0x50 then L-1 symbolic bytes), op (symbolic opcode from OPSET),
    redeem / wscript / leaf / cb (the genuine script bytes), f... (the same object of the attacker's own output)"""

    def __init__(self, t, ss_slots, wit_slots):
        self.t = t
        self.ft = None
        self.foreign = any(s[0].startswith("f") for s in list(ss_slots) + list(wit_slots))
        if self.foreign:
            self.ft = sym_tmpl(t.name, t.m, t.n, pfx="f")
            for a in self.ft.keys[1:] if t.schnorr else self.ft.keys:
                for b in t.keys[1:] if t.schnorr else t.keys:
                    assume_nq(core.sbytes(a[-32:]) != b[-32:])
            if t.schnorr:
                assume_nq(core.sbytes(self.ft.internal) != t.internal)
        self.ss_slots, self.wit_slots = list(ss_slots), list(wit_slots)
        self.ss = [self._slot(s, f"ss{i}") for i, s in enumerate(ss_slots)]
        self.wit = [self._slot(s, f"w{i}") for i, s in enumerate(wit_slots)]

    def _slot(self, s, name):
        kind = s[0]
        if kind == "p":
            return SBytes.sym(name, s[1]) if s[1] else b""
        if kind == "s":  # signature-sized push whose hash-type byte is SIGHASH_ALL (the other bytes symbolic)
            return SBytes.sym(name, s[1] - 1) + b"\x01"
        if kind == "annex":
            return b"\x50" + (SBytes.sym(name, s[1] - 1) if s[1] > 1 else b"")
        if kind == "op":
            v = SI.var(name, 0, 255)
            assume_nq(s_or(*[v == o for o in OPSET]))
            return core.concretize(v)
        val = getattr(self.ft if kind.startswith("f") else self.t, SLOT_SRC[kind])
        if val is None:
            raise KeyError(f"slot {kind} does not exist for template {self.t.name}")
        return val

    def all(self):
        return list(zip(self.ss_slots, self.ss)) + list(zip(self.wit_slots, self.wit))

    def candidates(self):
        """(global index, item) of attacker pushes that could be signatures"""
        out = []
        for j, (s, v) in enumerate(self.all()):
            if s[0] not in ("p", "s"):
                continue
            if (s[1] in (64, 65)) if self.t.schnorr else (s[1] >= 9):
                out.append((j, v))
        return out

    def describe(self, env):
        """JSON description of every slot under the model; pushes equal to a named object (script key, genuine script, ...)
        are reported by role so that the replay can rebuild the spend with real keys"""
        t = self.t
        named = [({"k": "key", "i": i}, k) for i, k in enumerate(t.keys)]
        for nm in ("redeem", "wscript", "leaf", "cb", "internal"):
            if getattr(t, nm) is not None:
                named.append(({"k": nm}, getattr(t, nm)))
        named = [(d, _cb(v, env)) for d, v in named]

        def one(s, v):
            if s[0] == "op":
                return {"k": "op", "op": int(v)}
            if s[0] in ("p", "s", "annex"):
                b = _cb(v, env)
                for d, nb in named:
                    if nb == b:
                        return dict(d)
                return {"k": "push", "hex": b.hex()}
            return {"k": s[0]}
        return [one(s, v) for s, v in zip(self.ss_slots, self.ss)], [one(s, v) for s, v in zip(self.wit_slots, self.wit)]


def annex_of(items):
    """BIP341: the last of >= 2 witness items, when it starts with 0x50"""
    if len(items) >= 2 and len(items[-1]) >= 1 and items[-1][0] == 0x50:
        return items[-1]
    return None


def sig_terms(t, f, n_in, idx, cands, annex, valid_e, valid_s):
    """vmap[(j, k)]: candidate item j is a Valid signature of script key k on the reference digest (SB in the symbolic run,
    bool in the replay: valid_e / valid_s are the uninterpreted predicates resp. the real verification)"""
    vmap = {}
    for (j, it) in cands:
        try:
            if t.schnorr:
                raw, ht = (it, 0) if len(it) == 64 else (it[:64], it[64])
                d0 = ref_digest(t, f, n_in, idx, ht, annex, 0)
                vmap[(j, 0)] = valid_s(t.keys[0], d0, raw)
                d1 = ref_digest(t, f, n_in, idx, ht, annex, 1)
                for k in range(1, len(t.keys)):
                    vmap[(j, k)] = valid_s(t.keys[k], d1, raw)
            else:
                der, ht = it[:-1], it[-1]
                if not der_wf(der):
                    continue
                d = ref_digest(t, f, n_in, idx, ht)
                for k, key in enumerate(t.keys):
                    vmap[(j, k)] = valid_e(key, d, der)
        except Exception:
            continue
    return vmap


def authorised(t, vmap):
    nk = len(t.keys)
    per_key = [s_or(*[v for (j, k2), v in vmap.items() if k2 == k]) for k in range(nk)]
    if t.schnorr:
        return s_or(per_key[0], *[s_and(*[per_key[k] for k in sub]) for sub in itertools.combinations(range(1, nk), t.need)])
    return s_or(*[s_and(*[per_key[k] for k in sub]) for sub in itertools.combinations(range(nk), t.need)])


def cross_terms(t, f, n_in, idx, cands, valid_e):
    """xmap[(j, k, j2)]: the DER part of candidate j is a Valid signature of script key k on the reference digest of the hash-type
    byte carried by ANOTHER candidate j2 (ECDSA templates).  Not part of the authorisation oracle -- a signature authorises only
    through the digest of its own hash-type byte (sig_terms) -- but the solver is free to make such a triple Valid, and the
    witness must say so for the replay to build a real signature of that kind (made for one hash type, presented with another)"""
    xmap = {}
    if t.schnorr:
        return xmap
    for (j, it) in cands:
        der = it[:-1]
        try:
            if not der_wf(der):
                continue
        except Exception:
            continue
        for (j2, it2) in cands:
            if j2 == j:
                continue
            try:
                d = ref_digest(t, f, n_in, idx, it2[-1])
                for k, key in enumerate(t.keys):
                    xmap[(j, k, j2)] = valid_e(key, d, der)
            except Exception:
                continue
    return xmap


def _mval(v):
    if isinstance(v, SB):
        c = core.ctx()
        return core.model_bool(c.model, v.n, c.mode)
    return bool(v)


def attack_path(tmpl, m, n, ss, wit, n_in=1, idx=0):
    reset_path()
    t = sym_tmpl(tmpl, m, n)
    sp = Spend(t, parse_shape(ss), parse_shape(wit))
    f = sym_fields()
    tx = build_tx(t.md, t.spk, sp.ss, sp.wit, n_in, idx, f)
    try:
        ok = bool(tx.verify_input(idx))
    except Exception as e:
        check(True, "error")
        return "error:" + type(e).__name__
    if not ok:
        check(True, "rejected")
        return "rejected"
    cands = sp.candidates()
    annex = annex_of(sp.wit) if t.schnorr else None
    vmap = sig_terms(t, f, n_in, idx, cands, annex, valid_ecdsa, valid_schnorr)
    # ideal signatures: one signature is valid for at most one key
    for (j, it) in cands:
        for k1, k2 in itertools.combinations(range(len(t.keys)), 2):
            if (j, k1) in vmap and (j, k2) in vmap:
                assume_nq(s_not(s_and(vmap[(j, k1)], vmap[(j, k2)])))
    auth = authorised(t, vmap)
    # several signatures present: which of them the model makes Valid on the digest of ANOTHER signature's hash-type byte
    # (multisig templates: the only ones whose script checks more than one signature)
    xmap = cross_terms(t, f, n_in, idx, cands, valid_ecdsa) if len(cands) >= 2 and not sp.foreign and t.name.endswith("-ms") else {}
    if xmap:
        # ideal signatures: one signature is valid for at most one key, whatever the digest
        for (j, it) in cands:
            per = [[v for (j0, k0), v in vmap.items() if j0 == j and k0 == k] + [v for (j0, k0, _j2), v in xmap.items() if j0 == j and k0 == k]
                   for k in range(len(t.keys))]
            for k1, k2 in itertools.combinations(range(len(t.keys)), 2):
                if per[k1] and per[k2]:
                    assume_nq(s_not(s_and(s_or(*per[k1]), s_or(*per[k2]))))

    def wfn(env):
        ssd, wd = sp.describe(env)
        shaped = [j for (j, it) in cands if t.schnorr or _mval(der_wf(it[:-1]))]
        return {"template": tmpl, "m": m, "n": n, "n_in": n_in, "idx": idx, "scriptsig_shape": ss, "witness_shape": wit,
                "scriptsig": ssd, "witness": wd, "valid": sorted([j, k] for (j, k), v in vmap.items() if _mval(v)),
                "valid_as": sorted([j, k, j2] for (j, k, j2), v in xmap.items() if _mval(v)),
                "sig_shaped": shaped,
                "tx": dict({v: env[v] for v in TXVARS}, prev=core.bytes_env(env, "prev", 32).hex())}
    if sp.foreign:
        check(False, "a spend presenting a foreign script / control block is accepted", witness=wfn)
    else:
        check(auth, "accepted without authorisation", witness=wfn)
    return "accepted"


def ob_attack(tmpl, m, n, shapes, n_in=1, idx=0):
    runs = []
    for (ss, wit) in shapes:
        runs.append(sym_run(lambda: attack_path(tmpl, m, n, ss, wit, n_in, idx), timeout_ms=60000, max_violations=1))
    r = merge_runs(runs)
    r["sample"] = {"template": tmpl, "m": m, "n": n, "shapes": len(shapes), "example": {"scriptsig": shapes[0][0], "witness": shapes[0][1]},
                   "items": "symbolic bytes of the stated lengths; op = symbolic opcode from OP_0/OP_1/OP_NOP/OP_DROP/OP_DUP"}
    return r


# ------------------------------------------------------------------------------------------------ replay (real keys, real signatures)

_REAL = {}


def _secret(tag, i):
    import hashlib
    return int.from_bytes(hashlib.sha256(f"C06/{tag}/{i}".encode()).digest(), "big") % (N_ORDER - 1) + 1


def real_priv(tag, i):
    k = (tag, i)
    if k not in _REAL:
        _REAL[k] = native_mods().ecc.PrivateKey(_secret(tag, i))
    return _REAL[k]


class RealTmpl(Tmpl):
    def __init__(self, name, m, n, tag):
        md = native_mods()
        self.privs = [real_priv(tag, i) for i in range(n)]
        if name in TAPROOT_T:
            # the library orders tapscript multisig keys by x-only encoding; any order is a script, keep the given one
            self.ipriv = real_priv(tag + "/internal", 0)
            Tmpl.__init__(self, md, name, m, n, [p.point for p in self.privs], self.ipriv.point)
            self.signers = [self.ipriv.tweaked_key(self.root)] + self.privs
        else:
            Tmpl.__init__(self, md, name, m, n, [p.point for p in self.privs])
            self.signers = self.privs


_REAL_T = {}


def real_tmpl(name, m, n, tag):
    import copy
    k = (name, m, n, tag)
    if k not in _REAL_T:
        _REAL_T[k] = RealTmpl(name, m, n, tag)
    return copy.copy(_REAL_T[k])


def real_valid_e(key, z, der):
    md = native_mods()
    try:
        return bool(md.ecc.S256Point.parse(bytes(key)).verify(z, md.ecc.Signature.parse(bytes(der))))
    except Exception:
        return False


def real_valid_s(key, msg, raw):
    md = native_mods()
    try:
        return bool(md.ecc.S256Point.parse_xonly(bytes(key)).verify_schnorr(msg, md.ecc.SchnorrSignature.parse(bytes(raw))))
    except Exception:
        return False


def real_sign(t, signer, f, n_in, idx, ht, annex, ext, length):
    """a real signature by `signer` over the real reference digest; `length` is the model's item length (Schnorr: 64 / 65)"""
    d = ref_digest(t, f, n_in, idx, ht, annex, ext)
    if t.schnorr:
        raw = signer.sign_schnorr(d).serialize()
        return raw + (bytes([ht]) if length == 65 else b"")
    return signer.sign(d).der() + bytes([ht])


def rebuild(w):
    """concrete spend from a witness: real keys, real scripts; items the model calls Valid for script key k become real
    signatures by k over the real reference digest; other well-formed signature-shaped items become real signatures by a key
    outside the script (well formed, invalid); everything else is kept byte for byte"""
    t = real_tmpl(w["template"], w["m"], w["n"], "script")
    ft = real_tmpl(w["template"], w["m"], w["n"], "foreign") if any(
        d["k"].startswith("f") for d in list(w["scriptsig"]) + list(w["witness"])) else None
    outsider = real_priv("outsider", 0)
    f = dict(w["tx"])
    f["prev"] = bytes.fromhex(f["prev"])
    n_in, idx = w["n_in"], w["idx"]
    descs = list(w["scriptsig"]) + list(w["witness"])
    nss = len(w["scriptsig"])
    valid = {}
    for j, k in w["valid"]:
        valid.setdefault(j, k)
    # items that are Valid only on the digest of another item's hash-type byte: a real signature made for that hash type,
    # presented with the item's own hash-type byte
    valid_as = {}
    for j, k, j2 in w.get("valid_as", []):
        if j not in valid:
            valid_as.setdefault(j, (k, j2))

    def plain(d):
        k = d["k"]
        if k == "op":
            return d["op"]
        if k == "push":
            return bytes.fromhex(d["hex"])
        if k == "key":
            return t.keys[d["i"]]
        if k in ("redeem", "wscript", "leaf", "cb", "internal"):
            return getattr(t, k)
        return getattr(ft, SLOT_SRC[k])
    vals = [plain(d) for d in descs]
    wit0 = vals[nss:]
    annex = annex_of([v for v in wit0]) if t.schnorr else None
    script_path = t.schnorr and any(d["k"] in ("leaf", "fleaf") for d in w["witness"])
    subst = {}
    for j, d in enumerate(descs):
        if d["k"] != "push":
            continue
        b = vals[j]
        L = len(b)
        if t.schnorr:
            if L not in (64, 65) or (b[0] == 0x50 and j == len(descs) - 1):
                continue
            ht = b[64] if L == 65 else 0
            if j in valid:
                k = valid[j]
                subst[j] = real_sign(t, t.signers[k], f, n_in, idx, ht, annex, 0 if k == 0 else 1, L)
            else:
                try:
                    subst[j] = real_sign(t, outsider, f, n_in, idx, ht, annex, 1 if script_path else 0, L)
                except Exception:
                    pass
        else:
            if L < 9 or not der_wf(b[:-1]):
                continue
            ht = b[-1]
            try:
                if j in valid_as:
                    k, j2 = valid_as[j]
                    subst[j] = real_sign(t, t.signers[k], f, n_in, idx, vals[j2][-1], None, 0, L)[:-1] + bytes([ht])
                else:
                    subst[j] = real_sign(t, t.signers[valid[j]] if j in valid else outsider, f, n_in, idx, ht, None, 0, L)
            except Exception:
                pass
    for j, v in subst.items():
        vals[j] = v
    tx = build_tx(t.md, t.spk, vals[:nss], vals[nss:], n_in, idx, f)
    return t, tx, f, vals, nss


def replay_attack(w):
    t, tx, f, vals, nss = rebuild(w)
    n_in, idx = w["n_in"], w["idx"]
    try:
        ok = bool(tx.verify_input(idx))
        how = "returned %r" % ok
    except Exception as e:
        ok, how = False, "raised %r" % (e,)
    items = [(j, v) for j, v in enumerate(vals) if isinstance(v, (bytes, bytearray))]
    cands = [(j, v) for j, v in items if ((len(v) in (64, 65)) if t.schnorr else len(v) >= 9)]
    annex = annex_of(vals[nss:]) if t.schnorr else None
    vmap = sig_terms(t, f, n_in, idx, cands, annex, real_valid_e, real_valid_s)
    foreign = any(d["k"].startswith("f") for d in list(w["scriptsig"]) + list(w["witness"]))
    auth = bool(authorised(t, vmap)) and not foreign
    nvalid = sorted({k for (j, k), v in vmap.items() if v})

    def show(v):
        return v if isinstance(v, int) else (bytes(v).hex() if len(v) <= 40 else bytes(v)[:8].hex() + f"..({len(v)} bytes)")
    return {"violated": bool(ok and not auth),
            "observed": f"{w['template']} {w['m']}-of-{w['n']}: scriptSig={[show(v) for v in vals[:nss]]} witness={[show(v) for v in vals[nss:]]}: "
                        f"verify_input {how}; script keys with a valid signature on this transaction: {nvalid} (need {t.need})"
                        + ("; foreign script presented" if foreign else ""),
            "expected": "false or an error"}


# ------------------------------------------------------------------------------------------------ O0: the DER stand-in is exact

def _der_lemma_path(n):
    reset_path()
    pecc = mods().pecc
    b = SBytes.sym("d", n) if n else b""
    wit = lambda env: {"der": core.bytes_env(env, "d", n).hex()}  # noqa
    try:
        pecc.Signature.parse(b)
        ok = True
    except Exception:
        ok = False
    if ok:
        check(der_wf(b), "the real DER parser accepts a string outside the stand-in's accept set", witness=wit)
    else:
        check(s_not(der_wf(b)), "the real DER parser rejects a string inside the stand-in's accept set", witness=wit)
    return ok


def ob_der_lemma(lengths):
    runs = [sym_run(lambda: _der_lemma_path(n), timeout_ms=30000) for n in lengths]
    r = merge_runs(runs)
    r["sample"] = {"der": "symbolic byte strings", "lengths": list(lengths)}
    if "True" not in r["classes"]:
        r["inconclusive"].append("reachability twin: the real parser accepted nothing")
    return r


def replay_der(w):
    from buidl.ecc import Signature
    b = bytes.fromhex(w["der"])
    try:
        Signature.parse(b)
        ok = True
    except Exception:
        ok = False
    return {"violated": ok != bool(der_wf(b)), "observed": f"Signature.parse({b.hex()}) accepted={ok}, stand-in predicate {bool(der_wf(b))}"}


# ------------------------------------------------------------------------------------------------ O2 / O3: library-built spends

def honest_spend(t, tx, idx, privs, signers, outpriv=None):
    """sign and finalise input idx through the library's own helpers; returns what the last helper / verify_input reports.
    privs: PrivStub (symbolic run) or PrivateKey (replay) per script key; signers: indexes of the keys that sign"""
    md = t.md
    sc = md.script
    ti = tx.tx_ins[idx]
    if t.name == "p2pkh":
        return tx.sign_input(idx, privs[0]) if signers else tx.verify_input(idx)
    if t.name == "p2wpkh":
        return tx.sign_input(idx, privs[0]) if signers else tx.verify_input(idx)
    if t.name == "p2sh-p2wpkh":
        return tx.sign_input(idx, privs[0], redeem_script=sc.RedeemScript(list(t.redeem_cmds))) if signers else tx.verify_input(idx)
    if t.name == "p2sh-ms":
        rs = sc.RedeemScript(list(t.redeem_cmds))
        sigs = [tx.get_sig_legacy(idx, privs[i], redeem_script=rs) for i in signers]
        ti.finalize_p2sh_multisig(sigs, rs)
        return tx.verify_input(idx)
    if t.name in ("p2wsh-ms", "p2sh-p2wsh-ms"):
        ws = sc.WitnessScript(list(t.wscript_cmds))
        sigs = [tx.get_sig_segwit(idx, privs[i], witness_script=ws) for i in signers]
        if t.name == "p2wsh-ms":
            ti.finalize_p2wsh_multisig(sigs, ws)
        else:
            ti.finalize_p2sh_p2wsh_multisig(sigs, ws)
        return tx.verify_input(idx)
    if signers == ("keypath",):
        return tx.sign_p2tr_keypath(idx, outpriv)
    tap_script = md.taproot.MultiSigTapScript(list(t.points), t.need)
    cb = tap_script.tap_leaf().control_block(t.internal_point)
    tx.initialize_p2tr_multisig(idx, cb, tap_script)
    sigs = [tx.get_sig_taproot(idx, privs[i], ext_flag=1) if i in signers else b"" for i in range(len(privs))]
    return tx.finalize_p2tr_multisig(idx, sigs)


def wrong_commitment(t, variant, hx):
    """scriptPubKey whose committed hash / output key is hx instead of the genuine one (O3)"""
    sc = t.md.script
    if t.name == "p2pkh":
        return sc.P2PKHScriptPubKey(hx)
    if t.name == "p2wpkh":
        return sc.P2WPKHScriptPubKey(hx)
    if t.name in ("p2sh-p2wpkh", "p2sh-ms", "p2sh-p2wsh-ms"):
        return sc.P2SHScriptPubKey(hx)
    if t.name == "p2wsh-ms":
        return sc.P2WSHScriptPubKey(hx)
    return sc.P2TRScriptPubKey(hx)


def committed_value(t):
    if t.name == "p2pkh":
        return t.spk.commands[2]
    return t.spk.commands[1]


EDITS = ("amount", "other_sequence", "other_prev_index", "locktime")


def apply_edit(md, tx, idx, edit, val):
    """change one committed field in place (SIGHASH_ALL commits to all of them in every digest algorithm)"""
    other = 1 - idx
    if edit == "amount":
        tx.tx_outs[0].amount = val
    elif edit == "other_sequence":
        tx.tx_ins[other].sequence = md.tx.Sequence(val) if hasattr(md.tx, "Sequence") else val
    elif edit == "other_prev_index":
        tx.tx_ins[other].prev_index = val
    elif edit == "locktime":
        tx.locktime = md.tx.Locktime(val) if hasattr(md.tx, "Locktime") else val


def edit_old_value(f, idx, edit):
    return {"amount": f["amount"], "other_sequence": 0xFFFFFFFD, "other_prev_index": 1 - idx, "locktime": f["locktime"]}[edit]


def honest_path(tmpl, m, n, signers, commit=None, n_in=1, idx=0, edit="amount"):
    """commit=None: O2 (the spend must verify iff enough distinct keys signed); commit='wrong': O3 (the scriptPubKey commits to a
    different hash / output key: the fully signed spend must be rejected)"""
    reset_path()
    t = sym_tmpl(tmpl, m, n)
    if t.schnorr:
        # the library orders tapscript keys by their x-only encoding: take the names k0 < k1 < ... in that order
        for a, b in zip(t.xkeys, t.xkeys[1:]):
            assume_nq(core.sbytes(a) < b)
        encs = t.xkeys
    else:
        encs = t.keys
    privs = [PrivStub(p, f"k{i}", others=[e for j, e in enumerate(encs) if j != i]) for i, p in enumerate(t.points)]
    outpriv = PrivStub(KeyStub(t.outkey), "out", others=list(t.xkeys)) if t.schnorr else None
    f = sym_fields()
    good = committed_value(t)
    if commit and commit != "edited":
        hx = SBytes.sym("hx", len(good))
        assume_nq(core.sbytes(hx) != good)
        t.spk = wrong_commitment(t, commit, hx)
        if t.schnorr:
            outpriv.others.append(hx)  # the other output key is another key: the signer's signature is not valid for it
    tx = build_tx(t.md, t.spk, [], [], n_in, idx, f)
    try:
        ok = bool(honest_spend(t, tx, idx, privs, signers, outpriv))
        how = "ok" if ok else "rejected"
    except Exception as e:
        ok, how = False, "error:" + type(e).__name__
    enough = signers == ("keypath",) or len(set(signers)) >= t.need
    expect = enough and not commit
    edited = None
    if commit == "edited":
        # history on one object: after the spend verified, a committed field is changed in place; the SAME object must now reject
        # (ideal signatures are valid only for the digest they were made for; digests of different preimages differ)
        expect = enough
        if ok:
            UNFORGEABLE[0] = True
            try:
                new_amt = SI.var("new_amount", 0, (1 << 63) - 1 if edit == "amount" else 0xFFFFFFFF)
                assume_nq(new_amt != edit_old_value(f, idx, edit))
                apply_edit(t.md, tx, idx, edit, new_amt)
                try:
                    edited = bool(tx.verify_input(idx))
                except Exception:
                    edited = False
            finally:
                UNFORGEABLE[0] = False

    def wfn(env):
        w = {"template": tmpl, "m": m, "n": n, "n_in": n_in, "idx": idx, "signers": list(signers), "commit": commit,
             "tx": dict({v: env[v] for v in TXVARS}, prev=core.bytes_env(env, "prev", 32).hex())}
        if commit == "edited":
            w["new_amount"] = env.get("new_amount", 0)
            w["edit"] = edit
        elif commit:
            w["hx"] = core.bytes_env(env, "hx", len(good)).hex()
        return w
    if commit == "edited":
        if ok:
            check(not edited, f"a signed spend still verifies on the same Tx object after a committed field ({edit}) was changed in place",
                  witness=wfn)
            return "edited-rejected" if not edited else "edited-accepted"
        check(ok, "a spend signed through the library with the required keys does not verify", witness=wfn)
        return how
    if expect:
        check(ok, "a spend signed through the library with the required keys does not verify", witness=wfn)
    elif commit:
        check(not ok, "a fully signed spend verifies against a scriptPubKey that commits to a different hash / key", witness=wfn)
    else:
        check(not ok, "a spend with fewer than m distinct signers verifies", witness=wfn)
    return how


def ob_honest(tmpl, m, n, cases, commit=None):
    if commit == "edited":
        runs = [sym_run(lambda: honest_path(tmpl, m, n, tuple(sg), commit, n_in=1 if ed in ("amount", "locktime") else 2, idx=ix, edit=ed),
                        timeout_ms=60000, max_violations=2)
                for sg in cases for ed in EDITS for ix in ((0,) if ed in ("amount", "locktime") else (0, 1))]
    else:
        runs = [sym_run(lambda: honest_path(tmpl, m, n, tuple(sg), commit), timeout_ms=60000, max_violations=2) for sg in cases]
    r = merge_runs(runs)
    r["sample"] = {"template": tmpl, "m": m, "n": n, "signer sets": [list(c) for c in cases], "commitment": commit or "genuine",
                   "keys / signatures / transaction fields": "symbolic"}
    want = "'edited-rejected'" if commit == "edited" else ("'rejected'" if commit else "'ok'")
    if want not in r["classes"] and not any(k.startswith("'error") for k in r["classes"]) and not r["violations"]:
        r["inconclusive"].append(f"reachability twin: outcome {want} never reached")
    return r


def replay_honest(w):
    t = real_tmpl(w["template"], w["m"], w["n"], "script")
    f = dict(w["tx"])
    f["prev"] = bytes.fromhex(f["prev"])
    signers = tuple(w["signers"])
    privs = t.privs
    if t.schnorr:
        # MultiSigTapScript sorts by x-only key: index the signers in that order, as the symbolic run does
        order = sorted(range(len(privs)), key=lambda i: privs[i].point.xonly())
        privs = [privs[i] for i in order]
        t = RealTmplOrdered(w["template"], w["m"], w["n"], privs, t.ipriv)
    if w.get("commit") and w["commit"] != "edited":
        t.spk = wrong_commitment(t, w["commit"], bytes.fromhex(w["hx"]))
    tx = build_tx(t.md, t.spk, [], [], w["n_in"], w["idx"], f)
    try:
        ok = bool(honest_spend(t, tx, w["idx"], privs, signers, t.signers[0] if t.schnorr else None))
        how = "returned %r" % ok
    except Exception as e:
        ok, how = False, "raised %r" % (e,)
    if w.get("commit") == "edited":
        if not ok:
            return {"violated": True, "observed": f"{w['template']}: honestly signed spend does not verify ({how})"}
        ed = w.get("edit", "amount")
        old = edit_old_value(f, w["idx"], ed)
        nv = w["new_amount"] if w["new_amount"] != old else (old + 1 if ed == "amount" else (old + 1) % 0xFFFFFFFF)
        apply_edit(t.md, tx, w["idx"], ed, nv)
        try:
            ok2 = bool(tx.verify_input(w["idx"]))
        except Exception:
            ok2 = False
        return {"violated": ok2, "observed": f"{w['template']} {w['m']}-of-{w['n']} ({w['n_in']} input(s), input {w['idx']} signed with SIGHASH_ALL): verified, "
                                             f"then {ed} changed in place from {old} to {nv} on the same object, verify_input again -> {ok2}"}
    enough = signers == ("keypath",) or len(set(signers)) >= t.need
    expect = enough and not w.get("commit")
    return {"violated": ok != expect,
            "observed": f"{w['template']} {w['m']}-of-{w['n']} signed by keys {list(signers)} through the library helpers"
                        + (" against a scriptPubKey committing to " + w["hx"] if w.get("commit") else "") + f": {how}",
            "expected": f"verify_input == {expect}"}


class RealTmplOrdered(Tmpl):
    def __init__(self, name, m, n, privs, ipriv):
        self.privs, self.ipriv = privs, ipriv
        Tmpl.__init__(self, native_mods(), name, m, n, [p.point for p in privs], ipriv.point)
        self.signers = [ipriv.tweaked_key(self.root)] + privs


# ------------------------------------------------------------------------------------------------ O4: one input re-pointed at another leaf

def two_leaf_tree(md, points, specs, internal):
    """P2TR output whose script tree has two k-of-n tapscript multisig leaves (specs: ((key indexes), k) per leaf), built through
    the library: MultiSigTapScript -> TapLeaf -> TapBranch -> control blocks (one path hash each) -> scriptPubKey"""
    tp = md.taproot
    scripts = [tp.MultiSigTapScript([points[i] for i in ks], k) for (ks, k) in specs]
    leaves = [sc_.tap_leaf() for sc_ in scripts]
    tree = tp.TapBranch(leaves[0], leaves[1])
    root = tree.hash()
    spk = internal.p2tr_script(root)
    q = internal.tweaked_key(root)
    cbs = [tp.ControlBlock(lf.tapleaf_version, q.parity, internal, [leaves[1 - i].hash()]) for i, lf in enumerate(leaves)]
    return scripts, leaves, spk, cbs


def leaf_round(tx, idx, cb, script, privs, signers, handed):
    """initialise the input for one leaf through the library, let `signers` sign (script path), finalise with the signatures
    in `handed` (made earlier, for whatever the input pointed at then) plus the fresh ones"""
    fresh = []
    try:
        tx.initialize_p2tr_multisig(idx, cb, script)
        fresh = [tx.get_sig_taproot(idx, privs[i], ext_flag=1) for i in signers]
        return bool(tx.finalize_p2tr_multisig(idx, list(handed) + fresh)), fresh
    except Exception:
        return False, fresh


def reset_input(md, tx, idx, how):
    ti = tx.tx_ins[idx]
    if how == "items":  # the idiom of the library's own tests
        ti.witness.items = []
    elif how == "clear":
        del ti.witness.items[:]
    else:
        ti.witness = md.witness.Witness()


def leaf_authorised(md, spk, script, cb, spec, points, sigs, f, valid_s):
    """the leaf now presented is authorised by `sigs`: at least k of its keys have, among the signatures handed to the
    finaliser, one that is Valid on the script-path digest of this transaction for THIS leaf.  The digest is computed on a
    reference transaction built from scratch (same fields, witness = [leaf script, control block]), not on the object
    under test"""
    ref = build_tx(md, spk, [], [script.raw_serialize(), cb.serialize()], 1, 0, f)
    d = ref.sig_hash_bip341(0, ext_flag=1, hash_type=0)
    ks, k = spec
    per_key = [s_or(*[valid_s(points[i].xonly(), d, sg) for sg in sigs if len(sg) == 64]) if sigs else False for i in ks]
    return s_or(*[s_and(*[per_key[a] for a in sub]) for sub in itertools.combinations(range(len(ks)), k)])


def leafswitch_path(n, specs, first, s1, s2, stale, reset):
    """history on ONE Tx / TxIn / Witness object: the input is prepared for leaf X of a two-leaf tree and signed by s1, finalised,
    its witness is emptied, it is prepared for the other leaf Y, signed by s2 and finalised with the leaf-X signatures handed in
    as well.  Demanded of each round: signed by exactly the k required keys of the leaf => reported valid; reported valid =>
    k keys of the presented leaf have a signature that is Valid on this transaction's digest for the presented leaf"""
    reset_path()
    md = mods()
    encs = [SBytes.sym(f"k{i}", 32) for i in range(n)]
    ST.nohash += [_node(e) for e in encs]
    internal = KeyStub(SBytes.sym("k.internal", 32))
    for a, b in zip(encs, encs[1:]):
        assume_nq(core.sbytes(a) < b)  # the library orders tapscript keys by x-only encoding: name them in that order
    points = [KeyStub(e) for e in encs]
    scripts, leaves, spk, cbs = two_leaf_tree(md, points, specs, internal)
    cv = spk.commands[1]
    assume_nq(s_or(*[cv[i] != 0 for i in range(len(cv) - 1)]))
    privs = [PrivStub(p, f"k{i}", others=[e for j, e in enumerate(encs) if j != i]) for i, p in enumerate(points)]
    f = sym_fields()
    tx = build_tx(md, spk, [], [], 1, 0, f)
    X, Y = first, 1 - first
    UNFORGEABLE[0] = True
    try:
        r1, sigs1 = leaf_round(tx, 0, cbs[X], scripts[X], privs, s1, [])
        reset_input(md, tx, 0, reset)
        handed = [sg for sg in sigs1] if stale else []
        r2, sigs2 = leaf_round(tx, 0, cbs[Y], scripts[Y], privs, s2, handed)
        auth1 = leaf_authorised(md, spk, scripts[X], cbs[X], specs[X], points, sigs1, f, verify_schnorr_ideal) if r1 else True
        auth2 = leaf_authorised(md, spk, scripts[Y], cbs[Y], specs[Y], points, handed + sigs2, f, verify_schnorr_ideal) if r2 else True
    finally:
        UNFORGEABLE[0] = False

    def wfn(env):
        return {"n": n, "specs": [[list(ks), k] for ks, k in specs], "first": first, "s1": list(s1), "s2": list(s2), "stale": stale,
                "reset": reset, "tx": dict({v: env[v] for v in TXVARS}, prev=core.bytes_env(env, "prev", 32).hex())}
    if len(s1) == specs[X][1]:
        check(r1, "first leaf: a spend signed through the library with the required keys does not verify", witness=wfn)
    check(auth1, "first leaf: reported valid without k valid signatures for the presented leaf", witness=wfn)
    if len(s2) == specs[Y][1]:
        check(r2, "after the input was re-pointed at another leaf: a spend signed with the required keys does not verify", witness=wfn)
    check(auth2, "after the input was re-pointed at another leaf: reported valid without k valid signatures for the presented leaf "
                 "(a signature commits to its leaf)", witness=wfn)
    return f"{'ok' if r1 else 'rejected'}/{'ok' if r2 else 'rejected'}"


def leafswitch_cases(specs, first, quick):
    X, Y = first, 1 - first
    out = []
    for r1 in range(0, specs[X][1] + 1):
        for s1 in itertools.combinations(specs[X][0], r1):
            for r2 in range(0, specs[Y][1] + 1):
                for s2 in itertools.combinations(specs[Y][0], r2):
                    if not s1 and not s2:
                        continue
                    out.append((s1, s2, True, "items"))
    if not quick:
        out += [(s1, s2, st, rs) for (s1, s2, _st, _rs) in list(out) for st, rs in ((True, "clear"), (True, "new"), (False, "items"))]
    else:
        full = tuple(specs[X][0][:specs[X][1]])
        out += [(full, (), True, "new"), (full, (), True, "clear")]
    return out


def ob_leafswitch(n, specs, first, quick=True):
    cases = leafswitch_cases(specs, first, quick)
    runs = [sym_run(lambda: leafswitch_path(n, specs, first, s1, s2, st, rs), timeout_ms=60000, max_violations=1) for (s1, s2, st, rs) in cases]
    r = merge_runs(runs)
    r["sample"] = {"tree": [f"{k}-of-{list(ks)}" for ks, k in specs], "first leaf": first, "cases (signers on first leaf, signers on second leaf, "
                   "first-leaf signatures handed to the second finalisation, reset idiom)": [list(map(str, c)) for c in cases[:6]],
                   "keys / internal key / signatures / transaction fields": "symbolic"}
    if not any(k.strip("'").endswith("/ok") for k in r["classes"]) and not r["violations"]:
        r["inconclusive"].append("reachability twin: the second leaf was never reported valid")
    return r


def replay_leafswitch(w):
    md = native_mods()
    n = w["n"]
    specs = [(tuple(ks), k) for ks, k in w["specs"]]
    privs = sorted([real_priv("script", i) for i in range(n)], key=lambda p: p.point.xonly())
    ipriv = real_priv("script/internal", 0)
    points = [p.point for p in privs]
    scripts, leaves, spk, cbs = two_leaf_tree(md, points, specs, ipriv.point)
    f = dict(w["tx"])
    f["prev"] = bytes.fromhex(f["prev"])
    tx = build_tx(md, spk, [], [], 1, 0, f)
    X, Y = w["first"], 1 - w["first"]
    r1, sigs1 = leaf_round(tx, 0, cbs[X], scripts[X], privs, w["s1"], [])
    reset_input(md, tx, 0, w["reset"])
    handed = list(sigs1) if w["stale"] else []
    r2, sigs2 = leaf_round(tx, 0, cbs[Y], scripts[Y], privs, w["s2"], handed)
    a1 = bool(leaf_authorised(md, spk, scripts[X], cbs[X], specs[X], points, sigs1, f, real_valid_s))
    a2 = bool(leaf_authorised(md, spk, scripts[Y], cbs[Y], specs[Y], points, handed + sigs2, f, real_valid_s))
    bad = []
    if len(w["s1"]) == specs[X][1] and not r1:
        bad.append("first leaf signed by the required keys but not reported valid")
    if r1 and not a1:
        bad.append("first leaf reported valid without k valid signatures")
    if len(w["s2"]) == specs[Y][1] and not r2:
        bad.append("second leaf signed by the required keys but not reported valid")
    if r2 and not a2:
        bad.append("second leaf reported valid without k valid signatures for that leaf")
    tree = " | ".join(f"{k}-of-{list(ks)}" for ks, k in specs)
    return {"violated": bool(bad),
            "observed": f"P2TR tree [{tree}] on one Tx object: leaf {X} signed by keys {w['s1']} -> finalize {r1} (authorised {a1}); witness reset "
                        f"({w['reset']}); leaf {Y} signed by keys {w['s2']}" + (", leaf-%d signatures handed in as well" % X if handed else "")
                        + f" -> finalize {r2} (keys of leaf {Y} with a valid signature for leaf {Y} suffice: {a2})" + ("; " + "; ".join(bad) if bad else ""),
            "expected": "valid iff k keys of the presented leaf signed for that leaf"}


# ------------------------------------------------------------------------------------------------ shapes and registry

def _j(*parts):
    return ",".join(p for p in parts if p)


SK_DATA = ["", "p0", "p1", "p33", "p72", "p72,p33", "p71,p33", "p33,p72", "p72,p72", "p33,p33", "p1,p33", "p0,p33", "p72,p1",
           "p72,p65", "p1,p72,p33", "p72,p33,p1", "p0,p0,p33", "s72,p72,p33", "p2,p2,s72,p33"]
SK_OPS = ["op", "op,p33", "p72,op", "p72,p33,op", "op,p72,p33", "p72,op,p33", "s72,p33,op,op"]
SS_JUNK = ["p0", "p1", "op", "p33", "p1,p1", "op,op"]


def ms_shapes(m, n, R, ops):
    sigs = ["p72"] + ["s72"] * (m - 1)
    S = ",".join(sigs)
    proper = _j("p0", S, R)
    out = [R, _j("p0", R), _j(S, R), proper, _j("p1", S, R), _j("p1", proper), _j("p0", S, "s72", R), _j("p0", "p0", R),
           _j("p0", "p71", *sigs[1:], R), _j("p0", S, "f" + R), _j("p0", S), _j(S, "p0", R), _j("p0", "p33", R), "f" + R, ""]
    if m > 1:
        out += [_j("p0", ",".join(sigs[:-1]), R), _j("p0", ",".join(sigs[:-1]), "p0", R), _j("p0", "p0", ",".join(sigs[:-1]), R)]
    if ops:
        out += [_j(R, "op"), _j("op", R), _j(proper, "op"), _j("p0", S, "op", R), _j("op", S, R), _j(R, "op", "op"), _j("p0", R, "op")]
    seen, res = set(), []
    for x in out:
        if x not in seen:
            seen.add(x)
            res.append(x)
    return res


def attack_shapes(tmpl, m, n, tier):
    """(scriptSig shape, witness shape) pairs for one template"""
    if tmpl == "p2pkh":
        return [(x, "") for x in SK_DATA + SK_OPS]
    if tmpl == "p2wpkh":
        return [("", x) for x in SK_DATA] + [(j, w) for j in SS_JUNK for w in ("", "p72,p33")]
    if tmpl == "p2sh-p2wpkh":
        return [("redeem", x) for x in ("", "p72,p33", "p33", "p72", "p1,p33", "p72,p33,p1", "p33,p72", "p0,p33")] + \
               [(j, w) for j in ("", "redeem,op", "op,redeem", "p1,redeem", "fredeem", "redeem,redeem", "p22", "redeem,p1") for w in ("", "p72,p33")]
    if tmpl == "p2sh-ms":
        return [(x, "") for x in ms_shapes(m, n, "redeem", True)]
    if tmpl == "p2wsh-ms":
        proper = _j("p0", ",".join(["p72"] + ["s72"] * (m - 1)), "wscript")
        return [("", x) for x in ms_shapes(m, n, "wscript", False)] + [(j, w) for j in ("p1", "op", "p0", "p34") for w in ("", proper)]
    if tmpl == "p2sh-p2wsh-ms":
        S = ",".join(["p72"] + ["s72"] * (m - 1))
        proper = _j("p0", S, "wscript")
        return [("redeem", x) for x in (proper, "wscript", "p0,wscript", _j("p0", S, "fwscript"), _j("p1", S, "wscript"), _j(S, "wscript"), "")] + \
               [(j, proper) for j in ("", "redeem,op", "op,redeem", "fredeem", "p1,redeem")] + [("redeem,op", ""), ("redeem,op", "wscript")]
    if tmpl == "p2tr-checksig":
        key = ["p64", "p65", "p64,annex2", "p65,annex1", "annex1", "annex2", "annex33", "p0", "p1", "p2", "p33", "p64,p1", "p1,p64",
               "p64,p64", "p0,annex1", ""]
        scr = ["p64,leaf,cb", "p65,leaf,cb", "p0,leaf,cb", "leaf,cb", "p64,leaf,cb,annex2", "p1,leaf,cb", "p64,fleaf,fcb", "p64,fleaf,cb",
               "p64,leaf,fcb", "p64,p1,leaf,cb", "p1,p64,leaf,cb", "p33,leaf,cb", "leaf,cb,annex1", "p64,cb,leaf", "p64,leaf"]
        return [("", x) for x in key + scr] + [(j, w) for j in ("p1", "op", "p0") for w in ("", "p64", "p64,leaf,cb")]
    if tmpl == "p2tr-csa":
        out = []
        for combo in itertools.product((0, 1), repeat=n):
            items, first = [], True
            for c in reversed(combo):  # the witness carries the signature for the last key first
                if c:
                    items.append("p64" if first else "s65")
                    first = False
                else:
                    items.append("p0")
            out.append(_j(*items, "leaf", "cb"))
        full = _j("p64", *["s65"] * (n - 1), "leaf", "cb")
        out += [_j(*["p64"] + ["p0"] * (n - 2), "leaf", "cb"), _j("p1", full), _j("p64", *["s65"] * (n - 1), "fleaf", "fcb"),
                _j(full, "annex2"), "leaf,cb", _j("p1", *["p0"] * (n - 1), "leaf", "cb")]
        return [("", x) for x in dict.fromkeys(out)] + [("p1", full), ("op", "")]
    raise KeyError(tmpl)


def signer_cases(tmpl, m, n):
    if tmpl in ("p2pkh", "p2wpkh", "p2sh-p2wpkh"):
        return [(0,), ()]
    # tapscript k-of-n (CHECKSIGADD ... k EQUAL) is satisfied by exactly k signatures: larger signer sets are not "the required keys"
    cases = [c for r in range(0, (m if tmpl == "p2tr-csa" else n) + 1) for c in itertools.combinations(range(n), r)]
    if m >= 2:
        cases.append((0, 0))
    if tmpl == "p2tr-checksig":
        cases.append(("keypath",))
    return cases


QUICK_T = [("p2pkh", 1, 1), ("p2wpkh", 1, 1), ("p2sh-p2wpkh", 1, 1), ("p2sh-ms", 1, 1), ("p2sh-ms", 1, 2), ("p2sh-ms", 2, 2), ("p2sh-ms", 2, 3),
           ("p2wsh-ms", 1, 2), ("p2wsh-ms", 2, 3), ("p2sh-p2wsh-ms", 1, 2), ("p2tr-checksig", 1, 1), ("p2tr-csa", 1, 2), ("p2tr-csa", 2, 2),
           ("p2tr-csa", 2, 3)]
THOROUGH_T = QUICK_T + [("p2sh-ms", 1, 3), ("p2sh-ms", 3, 3), ("p2wsh-ms", 1, 1), ("p2wsh-ms", 2, 2), ("p2wsh-ms", 3, 3), ("p2sh-p2wsh-ms", 2, 3),
                        ("p2tr-csa", 1, 3), ("p2tr-csa", 3, 3), ("p2sh-ms", 2, 4), ("p2sh-ms", 3, 5), ("p2wsh-ms", 2, 4), ("p2tr-csa", 3, 5)]


def obligations(tier):
    q = tier == "quick"
    obs = [Ob("O0-der-lemma", ob_der_lemma, {"lengths": tuple(range(0, 10))}, replay="der"),
           Ob("O0-der-lemma", ob_der_lemma, {"lengths": (10, 11) if q else (10, 11, 12)}, replay="der"),
           Ob("O0-der-lemma", ob_der_lemma, {"lengths": (12, 13) if q else (13, 14)}, replay="der", budget_s=1500)]
    for (tmpl, m, n) in (QUICK_T if q else THOROUGH_T):
        shapes = attack_shapes(tmpl, m, n, tier)
        chunk = 12
        for i in range(0, len(shapes), chunk):
            obs.append(Ob("O1-attack", ob_attack, {"tmpl": tmpl, "m": m, "n": n, "shapes": tuple(shapes[i:i + chunk])}, replay="attack",
                          budget_s=280 if q else 2400))
    for (tmpl, m, n) in (QUICK_T if q else THOROUGH_T):
        obs.append(Ob("O2-honest", ob_honest, {"tmpl": tmpl, "m": m, "n": n, "cases": tuple(signer_cases(tmpl, m, n))}, replay="honest"))
        full = tuple(range(m)) if tmpl not in ("p2pkh", "p2wpkh", "p2sh-p2wpkh") else (0,)
        cases = [full] + ([("keypath",)] if tmpl == "p2tr-checksig" else [])
        obs.append(Ob("O3-commitment", ob_honest, {"tmpl": tmpl, "m": m, "n": n, "cases": tuple(cases), "commit": "wrong"}, replay="honest"))
        # history: verify, change a committed output amount in place, verify again on the same object
        obs.append(Ob("O2-edited-after-signing", ob_honest, {"tmpl": tmpl, "m": m, "n": n, "cases": tuple(cases), "commit": "edited"}, replay="honest"))
    # history on one Tx / Witness object over a two-leaf tree whose leaves share a signer
    trees = [(2, (((0, 1), 2), ((0,), 1))), (2, (((0, 1), 1), ((1,), 1))), (3, (((0, 1, 2), 2), ((0, 2), 1)))]
    if not q:
        trees += [(2, (((0, 1), 2), ((1,), 1))), (2, (((0, 1), 2), ((0, 1), 1))), (3, (((0, 1), 2), ((1, 2), 2))), (3, (((0, 1, 2), 3), ((0, 1, 2), 2))),
                  (4, (((0, 1, 2, 3), 3), ((1, 3), 2)))]
    for (n, specs) in trees:
        for first in (0, 1):
            obs.append(Ob("O4-leaf-switch", ob_leafswitch, {"n": n, "specs": specs, "first": first, "quick": q}, replay="leafswitch",
                          budget_s=400 if q else 2400))
    # a second input position: the proper spend shapes with the input under test at index 1 of 2
    for (tmpl, m, n) in (("p2pkh", 1, 1), ("p2wpkh", 1, 1), ("p2sh-ms", 1, 2), ("p2wsh-ms", 1, 2), ("p2tr-checksig", 1, 1), ("p2tr-csa", 1, 2)):
        shapes = attack_shapes(tmpl, m, n, tier)
        pick = [sh for sh in shapes if sh in (("p72,p33", ""), ("", "p72,p33"), ("p0,p72,redeem", ""), ("", "p0,p72,wscript"), ("", "p64"),
                                              ("", "p64,leaf,cb"), ("", "p0,p64,leaf,cb"), ("redeem,op", ""), ("", "annex1"), ("p1", ""))]
        obs.append(Ob("O1-attack", ob_attack, {"tmpl": tmpl, "m": m, "n": n, "shapes": tuple(pick), "n_in": 2, "idx": 1}, replay="attack"))
    return obs
