"""C06 — input verification accepts properly signed spends and nothing unauthorised (DESIGN.md section 3, C06).

Ideal-signature abstraction.  Inside the shimmed copy of buidl (sbuidl.op / sbuidl.taproot / sbuidl.script / sbuidl.tx
name spaces, patched in the worker process only):

  * `S256Point`            -> KeyStub: carries the key *encoding* (33/65-byte SEC or 32-byte x-only); the real length / prefix
                              checks of parse / parse_sec are kept;
  * `Signature.parse`      -> SigStub: one fork on the DER well-formedness predicate `der_wf` (shown equal to the accept set of
                              the real parser by the lemma obligation O0), the object carries the DER bytes;
  * `SchnorrSignature.parse` -> SchnorrStub (length >= 32, s < N as in the real parser);
  * `point.verify(z, sig)` -> uninterpreted predicate ValidE(key encoding, z, DER bytes); `verify_schnorr` -> ValidS(x-only key, msg, sig);
  * `point.tweaked_key(root)` -> uninterpreted (TWX, TWP)(x-only key, TapTweak hash), injective (taproot commitment binding);
  * hashes are uninterpreted on symbolic input, with collision-freeness instances asserted for every pair of calls.

Everything else — Tx.verify_input, Script.evaluate, the opcode functions, Tx.sig_hash*, Witness, ControlBlock, TapLeaf — is the
real code of /repo running on symbolic scriptSig / witness items chosen by the solver.

Authorisation oracle (spec): an accepted spend must carry, among its scriptSig pushes / witness items, signatures that are Valid
for at least m distinct script keys on the digest of *this* transaction computed with the committed script (the reference digest
is computed by the harness with explicit script code, not through Tx.sig_hash's own script selection), and the commitment-relevant
script / control block must be the committed one.
"""
import itertools

from symx import core, loader, shims
from symx.core import (SI, SB, SBytes, check, assume, s_and, s_or, s_not, s_implies, norm, conc_value, wrapb, wrap, lift,
                       b_cmp, b_and, b_or, b_not, n_uf, n_cat, n_byte, const, TRUE, FALSE)
from vlib.run import Ob, sym_run, merge_runs

PROPERTY = "C06"

META = {
    "bounds": {},
    "outside": [],
    "stubs": [],
    "assumptions": [],
}

MANIFEST = {"technique": "symbolic execution (symx, z3 bit-vectors + uninterpreted functions) of the real Tx.verify_input / Script.evaluate / "
                         "opcode / sig_hash code on attacker-chosen symbolic scriptSig and witness items under an ideal-signature "
                         "abstraction; z3 decides on every path whether acceptance implies authorisation; every solver witness is "
                         "replayed with real keys and real signatures on the native code"}

N_ORDER = 0xFFFFFFFFFFFFFFFFFFFFFFFFFFFFFFFEBAAEDCE6AF48A03BBFD25E8CD0364141

# ------------------------------------------------------------------------------------------------ helpers


def _node(b):
    """big-endian integer node of a byte string"""
    return n_cat([lift(i) for i in b])


def _eqb(a, b):
    """SB/bool: byte strings equal (False for different lengths)"""
    if len(a) != len(b):
        return False
    if len(a) == 0:
        return True
    if isinstance(a, (bytes, bytearray)) and isinstance(b, (bytes, bytearray)):
        return bytes(a) == bytes(b)
    return core.sbytes(a) == b


def _cb(v, env):
    """concrete bytes of a possibly symbolic byte string"""
    return bytes(conc_value(core.sbytes(v), env)) if not isinstance(v, (bytes, bytearray)) else bytes(v)


def der_wf(b):
    """accept set of pecc.Signature.parse (lemma O0): 30 len 02 rl r.. 02 sl s.. with rl, sl >= 1 and exact lengths"""
    n = len(b)
    if n < 8 or n - 2 > 255:
        return False
    alts = []
    for rl in range(1, n - 6):
        alts.append(s_and(b[3] == rl, b[4 + rl] == 2, b[5 + rl] == n - 6 - rl))
    return s_and(b[0] == 0x30, b[1] == n - 2, b[2] == 2, s_or(*alts))


# ------------------------------------------------------------------------------------------------ stand-ins

class _State:
    hash_calls = []
    tw_calls = []
    nsig = 0
    inj = True


ST = _State()


def valid_ecdsa(key_enc, z, der):
    """uninterpreted ValidE(key encoding, digest, DER bytes)"""
    lk, ld = len(key_enc), len(der)
    node = n_uf(f"ValidE_{lk}_{ld}", 1, [_node(key_enc), lift(z), _node(der)], (8 * lk, 256, 8 * ld))
    return wrapb(b_cmp("eq", node, const(1)))


def valid_schnorr(key_x, msg, sig):
    lk, lm, ls = len(key_x), len(msg), len(sig)
    node = n_uf(f"ValidS_{lk}_{lm}_{ls}", 1, [_node(key_x), _node(msg), _node(sig)], (8 * lk, 8 * lm, 8 * ls))
    return wrapb(b_cmp("eq", node, const(1)))


class SigStub:
    def __init__(self, der):
        self.der_bytes = der

    def der(self):
        return self.der_bytes

    @classmethod
    def parse(cls, b):
        if not der_wf(b):
            raise RuntimeError("Bad Signature")
        return cls(b)


class SchnorrStub:
    def __init__(self, raw):
        self.raw = raw

    def serialize(self):
        return self.raw

    @classmethod
    def parse(cls, b):
        if len(b) < 32:
            raise ValueError("Unknown public key format")
        rest = b[32:]
        if len(rest) >= 32:
            s = core.int_from_bytes(rest, "big")
            if s >= N_ORDER:
                raise ValueError("s is greater than or equal to N")
        return cls(b)


class KeyStub:
    """stands for S256Point: the encoding is the identity of the key"""

    def __init__(self, enc, parity=None):
        self.enc = enc
        self._parity = parity

    # -- encodings
    def sec(self, compressed=True):
        if len(self.enc) == 32:
            raise core.Unsupported("sec() of an x-only stand-in key")
        return self.enc

    def xonly(self):
        return self.enc if len(self.enc) == 32 else self.enc[1:33]

    @property
    def parity(self):
        if self._parity is not None:
            return self._parity
        if len(self.enc) == 32:
            return 0
        return self.enc[0] & 1

    def __eq__(self, o):
        return isinstance(o, KeyStub) and _eqb(self.enc, o.enc)

    def __hash__(self):
        return id(self)

    # -- the abstraction
    def verify(self, z, sig):
        return valid_ecdsa(self.enc, z, sig.der_bytes)

    def verify_schnorr(self, msg, sig):
        if len(sig.raw) != 64:
            return False
        return valid_schnorr(self.xonly(), msg, sig.raw)

    def tweak(self, merkle_root=b""):
        return loader.load("hash").hash_taptweak(self.xonly() + merkle_root)

    def tweaked_key(self, merkle_root=b"", tweak=None):
        if tweak is None:
            tweak = self.tweak(merkle_root)
        px, t = _node(self.xonly()), _node(tweak)
        x = n_uf("TWX", 256, [px, t], (256, 256))
        p = n_uf("TWP", 1, [px, t], (256, 256))
        for (px2, t2, x2) in ST.tw_calls:
            if x2 is not x:
                assume(wrapb(b_or(b_not(b_cmp("eq", x, x2)), b_and(b_cmp("eq", px, px2), b_cmp("eq", t, t2)))))
        if all(x is not c[2] for c in ST.tw_calls):
            ST.tw_calls.append((px, t, x))
        return KeyStub(SBytes([wrap(n_byte(x, 31 - i)) for i in range(32)]), parity=wrap(p))

    def even_point(self):
        return self

    # -- derived scripts: the real methods, they only use sec()/xonly()
    def hash160(self, compressed=True):
        return loader.load("helper").hash160(self.sec(compressed))

    def p2pkh_script(self, compressed=True):
        return loader.load("script").P2PKHScriptPubKey(self.hash160(compressed))

    def p2wpkh_script(self):
        return loader.load("script").P2WPKHScriptPubKey(self.hash160(True))

    def p2sh_p2wpkh_redeem_script(self):
        return self.p2wpkh_script().redeem_script()

    def p2tr_script(self, merkle_root=b"", tweak=None):
        return loader.load("script").P2TRScriptPubKey(self.tweaked_key(merkle_root, tweak).xonly())

    # -- parsers (real length / prefix checks)
    @classmethod
    def parse(cls, binary):
        if len(binary) == 32:
            return cls.parse_xonly(binary)
        elif len(binary) in (33, 65):
            return cls.parse_sec(binary)
        raise ValueError("Unknown public key format")

    @classmethod
    def parse_sec(cls, sec_bin):
        if len(sec_bin) == 65:
            if sec_bin[0] != 4:
                raise ValueError("x out of field range")
            return cls(sec_bin)
        if sec_bin[0] == 4:
            raise ValueError("invalid literal for int() with base 16: ''")
        return cls(sec_bin)

    @classmethod
    def parse_xonly(cls, b):
        if len(b) != 32:
            raise ValueError("x-only key must be 32 bytes")
        return cls(b)


class PrivStub:
    """signer: sign() returns a fresh symbolic signature that is assumed Valid for the signer's key on the signed digest"""

    def __init__(self, point, name, compressed=True):
        self.point = point
        self.name = name
        self.compressed = compressed
        self.network = "mainnet"

    def sign(self, z):
        ST.nsig += 1
        r = SBytes.sym(f"sig{ST.nsig}.{self.name}.r", 32)
        s = SBytes.sym(f"sig{ST.nsig}.{self.name}.s", 32)
        assume(s_and(r[0] >= 1, r[0] < 0x80, s[0] >= 1, s[0] < 0x80))
        der = b"\x30\x44\x02\x20" + r + b"\x02\x20" + s
        assume(valid_ecdsa(self.point.enc, z, der))
        return SigStub(der)

    def sign_schnorr(self, msg, aux=None):
        ST.nsig += 1
        raw = SBytes.sym(f"sig{ST.nsig}.{self.name}", 64)
        assume(raw[32] < 0x80)
        assume(valid_schnorr(self.point.xonly(), msg, raw))
        return SchnorrStub(raw)


_orig_uf_bytes = shims._uf_bytes
_ALGOS = ("sha256", "sha1", "sha512", "ripemd160")


def _uf_bytes_inj(name, outlen, parts):
    """the engine's uninterpreted hash plus eager collision-freeness instances against every earlier call on this path"""
    before = len(shims.HASH_CALLS)
    r = _orig_uf_bytes(name, outlen, parts)
    if not ST.inj or name not in _ALGOS:
        return r
    fname, node = shims.HASH_CALLS[before]
    conds = []
    for (fn2, n2) in ST.hash_calls:
        if n2 is node:
            return r
        if fn2.split("_")[0] != name:
            continue
        if fn2 == fname:
            conds.append(b_or(b_not(b_cmp("eq", node, n2)), b_and(*[b_cmp("eq", a, b) for a, b in zip(node.args[3:], n2.args[3:])])))
        else:
            conds.append(b_not(b_cmp("eq", node, n2)))
    ST.hash_calls.append((fname, node))
    if conds:
        assume(wrapb(b_and(*conds)))
    return r


class M:
    """the shimmed modules with the stand-ins installed (once per worker process)"""
    ready = False


def mods():
    if not M.ready:
        M.tx, M.script, M.witness, M.op = loader.load("tx"), loader.load("script"), loader.load("witness"), loader.load("op")
        M.taproot, M.helper, M.pecc, M.hash = loader.load("taproot"), loader.load("helper"), loader.load("pecc"), loader.load("hash")
        for mod in (M.op, M.taproot, M.script):
            mod.S256Point = KeyStub
        M.op.Signature = SigStub
        for mod in (M.op, M.taproot, M.tx):
            mod.SchnorrSignature = SchnorrStub
        shims._uf_bytes = _uf_bytes_inj
        M.ready = True
    return M


def reset_path():
    ST.hash_calls = []
    ST.tw_calls = []
    ST.nsig = 0
    ST.inj = True
    del shims.HASH_CALLS[:]
    m = mods()
    return m


# ------------------------------------------------------------------------------------------------ templates

ECDSA_T = ("p2pkh", "p2wpkh", "p2sh-p2wpkh", "p2sh-ms", "p2wsh-ms", "p2sh-p2wsh-ms")
TAPROOT_T = ("p2tr-key", "p2tr-checksig", "p2tr-csa")
OPSET = (0, 81, 97, 117, 118)  # OP_0, OP_1, OP_NOP, OP_DROP, OP_DUP


def sym_sec(name):
    b = SBytes.sym(name, 33)
    assume(s_or(b[0] == 2, b[0] == 3))
    return b


def ms_commands(m, keys):
    return [80 + m] + list(keys) + [80 + len(keys), 174]


def tap_commands(tmpl, m, xkeys):
    if tmpl == "p2tr-csa":
        cmds = [xkeys[0], 0xAC]
        for k in xkeys[1:]:
            cmds += [k, 0xBA]
        return cmds + [80 + m, 0x87]
    return [xkeys[0], 0xAC]


class Tmpl:
    """one output to spend: scriptPubKey, script keys, the genuine redeem / witness / leaf script and control block,
    built through the real Script / TapLeaf / ControlBlock classes.  `pfx` names the symbolic keys (a second instance with
    another prefix is the attacker's own 'foreign' output of the same shape)."""

    def __init__(self, name, m, n, pfx="k"):
        md = mods()
        sc = md.script
        self.name, self.m, self.n = name, m, n
        self.redeem = self.wscript = self.leaf = self.cb = None
        self.redeem_cmds = self.wscript_cmds = self.leaf_cmds = None
        self.schnorr = name in TAPROOT_T
        if not self.schnorr:
            self.keys = [sym_sec(f"{pfx}{i}") for i in range(n)]
            for a, b in itertools.combinations(self.keys, 2):
                assume(core.sbytes(a[1:]) != b[1:])
            k0 = KeyStub(self.keys[0])
            if name == "p2pkh":
                self.spk = k0.p2pkh_script()
            elif name == "p2wpkh":
                self.spk = k0.p2wpkh_script()
            elif name == "p2sh-p2wpkh":
                rs = k0.p2sh_p2wpkh_redeem_script()
                self.redeem_cmds = list(rs.commands)
                self.redeem = rs.raw_serialize()
                self.spk = rs.script_pubkey()
            elif name == "p2sh-ms":
                self.redeem_cmds = ms_commands(m, self.keys)
                rs = sc.RedeemScript(list(self.redeem_cmds))
                self.redeem = rs.raw_serialize()
                self.spk = rs.script_pubkey()
            elif name in ("p2wsh-ms", "p2sh-p2wsh-ms"):
                self.wscript_cmds = ms_commands(m, self.keys)
                ws = sc.WitnessScript(list(self.wscript_cmds))
                self.wscript = ws.raw_serialize()
                self.spk = ws.script_pubkey()
                if name == "p2sh-p2wsh-ms":
                    rs = self.spk.redeem_script()
                    self.redeem_cmds = list(rs.commands)
                    self.redeem = rs.raw_serialize()
                    self.spk = rs.script_pubkey()
            else:
                raise KeyError(name)
        else:
            self.internal = SBytes.sym(f"{pfx}.internal", 32)
            ip = KeyStub(self.internal)
            self.xkeys = [SBytes.sym(f"{pfx}{i}", 32) for i in range(n)]
            for a, b in itertools.combinations(self.xkeys, 2):
                assume(core.sbytes(a) != b)
            self.leaf_cmds = tap_commands(name, m, self.xkeys) if name != "p2tr-key" else [SBytes.sym(f"{pfx}.other", 32), 0xAC]
            tl = md.taproot.TapLeaf(sc.Script(list(self.leaf_cmds)))
            self.leaf = tl.tap_script.raw_serialize()
            self.tapleaf = tl
            q = ip.tweaked_key(tl.hash())
            self.cb = md.taproot.ControlBlock(0xC0, q.parity, ip, []).serialize()
            self.outkey = q.xonly()
            self.spk = sc.P2TRScriptPubKey(self.outkey)
            # the keys that authorise: the output key for the key path, the leaf keys for the script path
            self.keys = [self.outkey] if name == "p2tr-key" else self.xkeys
        self.need = 1 if name in ("p2pkh", "p2wpkh", "p2sh-p2wpkh", "p2tr-key", "p2tr-checksig") else m


def build_tx(spk, ss_cmds, wit_items, n_in=1, idx=0):
    md = mods()
    txm, sc, wi = md.tx, md.script, md.witness
    ins = []
    for i in range(n_in):
        if i == idx:
            ti = txm.TxIn(SBytes.sym("prev", 32), SI.var("pidx", 0, 0xFFFFFFFF), sc.Script(list(ss_cmds)), SI.var("seq", 0, 0xFFFFFFFF))
            ti._value = SI.var("value", 0, (1 << 63) - 1)
            ti._script_pubkey = spk
            ti.witness = wi.Witness(list(wit_items))
        else:
            ti = txm.TxIn(bytes([0x70 + i]) * 32, i, sc.Script([]), 0xFFFFFFFD)
            ti._value = 5000 + i
            ti._script_pubkey = sc.P2WPKHScriptPubKey(bytes([0x60 + i]) * 20)
        ins.append(ti)
    outs = [txm.TxOut(SI.var("amount", 0, (1 << 63) - 1), sc.P2WPKHScriptPubKey(b"\x42" * 20))]
    for i in range(1, n_in):
        outs.append(txm.TxOut(1000 + i, sc.P2PKHScriptPubKey(bytes([0x50 + i]) * 20)))
    return txm.Tx(SI.var("version", 1, 2), ins, outs, SI.var("locktime", 0, 0xFFFFFFFF), network="mainnet", segwit=True)


def ref_digest(t, tx, idx, ht, annex=None):
    """digest of this transaction for hash type ht with the *committed* script code (explicit arguments to the real
    sig_hash_legacy / sig_hash_bip143 / sig_hash_bip341; Tx.sig_hash's own selection of the script is not used)"""
    md = mods()
    sc = md.script
    if t.name == "p2pkh":
        return tx.sig_hash_legacy(idx, None, ht)
    if t.name == "p2sh-ms":
        return tx.sig_hash_legacy(idx, sc.RedeemScript(list(t.redeem_cmds)), ht)
    if t.name == "p2wpkh":
        return tx.sig_hash_bip143(idx, None, None, ht)
    if t.name == "p2sh-p2wpkh":
        return tx.sig_hash_bip143(idx, sc.RedeemScript(list(t.redeem_cmds)), None, ht)
    if t.name in ("p2wsh-ms", "p2sh-p2wsh-ms"):
        return tx.sig_hash_bip143(idx, None, sc.WitnessScript(list(t.wscript_cmds)), ht)
    # taproot: a reference copy of the transaction whose input carries the canonical witness (and the same annex)
    items = [b"\x00" * 64] if t.name == "p2tr-key" else [t.leaf, t.cb]
    if annex is not None:
        items = items + [annex]
    ref = build_tx(t.spk, [], items, len(tx.tx_ins), idx)
    return ref.sig_hash_bip341(idx, ext_flag=0 if t.name == "p2tr-key" else 1, hash_type=ht)


# ------------------------------------------------------------------------------------------------ O1: attacker-chosen spends

def shape_str(slots):
    return ",".join(s[0] + (str(s[1]) if len(s) > 1 else "") for s in slots)


def parse_shape(s):
    out = []
    for tok in [x for x in s.split(",") if x]:
        i = 0
        while i < len(tok) and not tok[i].isdigit():
            i += 1
        out.append((tok[:i],) if i == len(tok) else (tok[:i], int(tok[i:])))
    return out


class Spend:
    """materialised attacker spend: commands / items plus the bookkeeping the oracle and the witness need"""

    def __init__(self, t, ss_slots, wit_slots):
        self.t = t
        self.ft = None
        self.foreign = any(s[0].startswith("f") for s in list(ss_slots) + list(wit_slots))
        if self.foreign:
            self.ft = Tmpl(t.name, t.m, t.n, pfx="f")
            for a in self.ft.keys:
                for b in t.keys:
                    assume(core.sbytes(a[-32:]) != b[-32:])
            if t.schnorr:
                assume(core.sbytes(self.ft.internal) != t.internal)
        self.ss = [self._slot(s, f"ss{i}") for i, s in enumerate(ss_slots)]
        self.wit = [self._slot(s, f"w{i}") for i, s in enumerate(wit_slots)]
        self.ss_slots, self.wit_slots = list(ss_slots), list(wit_slots)

    def _slot(self, s, name):
        t, ft = self.t, self.ft
        kind = s[0]
        if kind == "p":
            return SBytes.sym(name, s[1]) if s[1] else b""
        if kind == "annex":
            return b"\x50" + (SBytes.sym(name, s[1] - 1) if s[1] > 1 else b"")
        if kind == "op":
            v = SI.var(name, 0, 255)
            assume(s_or(*[v == o for o in OPSET]))
            return core.concretize(v)
        src = ft if kind.startswith("f") else t
        val = {"redeem": src.redeem, "wscript": src.wscript, "leaf": src.leaf, "cb": src.cb}[kind[1:] if kind.startswith("f") else kind]
        if val is None:
            raise KeyError(f"slot {kind} does not exist for template {t.name}")
        return val

    def candidates(self):
        """(global index, item) of pushes that could be signatures"""
        out = []
        allv = [(s, v) for s, v in zip(self.ss_slots, self.ss)] + [(s, v) for s, v in zip(self.wit_slots, self.wit)]
        for j, (s, v) in enumerate(allv):
            if s[0] != "p":
                continue
            if self.t.schnorr and s[1] in (64, 65):
                out.append((j, v))
            elif not self.t.schnorr and s[1] >= 9:
                out.append((j, v))
        return out

    def describe(self, env):
        """JSON description of every slot under the model: structural roles are resolved so that the replay can rebuild
        the spend with real keys"""
        t = self.t
        named = []
        for i, k in enumerate(t.keys):
            named.append(({"k": "key", "i": i}, k))
        for nm, v in (("redeem", t.redeem), ("wscript", t.wscript), ("leaf", t.leaf), ("cb", t.cb)):
            if v is not None:
                named.append(({"k": nm}, v))
        if t.schnorr:
            named.append(({"k": "internal"}, t.internal))
        named = [(d, _cb(v, env)) for d, v in named]

        def one(s, v):
            if s[0] == "op":
                return {"k": "op", "op": int(v)}
            if s[0] in ("p", "annex"):
                b = _cb(v, env)
                for d, nb in named:
                    if nb == b:
                        return dict(d)
                return {"k": "push", "hex": b.hex()}
            return {"k": s[0]}
        return [one(s, v) for s, v in zip(self.ss_slots, self.ss)], [one(s, v) for s, v in zip(self.wit_slots, self.wit)]


def annex_of(items):
    """BIP341: the last of >= 2 witness items, when it starts with 0x50"""
    if len(items) >= 2 and len(items[-1]) >= 1 and items[-1][0] == 0x50:
        return items[-1]
    return None


def authorisation(t, tx, idx, cands, annex):
    """SB: at least t.need distinct script keys have a Valid signature among the candidate items on the reference digest.
    Returns (auth, vmap) with vmap[(j, k)] the per item / key validity term."""
    vmap = {}
    for (j, it) in cands:
        try:
            if t.schnorr:
                raw, ht = (it, 0) if len(it) == 64 else (it[:64], it[64])
                d = ref_digest(t, tx, idx, ht, annex)
                for k, key in enumerate(t.keys):
                    vmap[(j, k)] = valid_schnorr(key, d, raw)
            else:
                der, ht = it[:-1], it[-1]
                wf = der_wf(der)
                if wf is False:
                    continue
                d = ref_digest(t, tx, idx, ht, annex)
                for k, key in enumerate(t.keys):
                    vmap[(j, k)] = s_and(wf, valid_ecdsa(key, d, der))
        except Exception:
            continue
    # ideal signatures: one signature is valid for at most one key
    for (j, it) in cands:
        for k1, k2 in itertools.combinations(range(len(t.keys)), 2):
            if (j, k1) in vmap and (j, k2) in vmap:
                assume(s_not(s_and(vmap[(j, k1)], vmap[(j, k2)])))
    per_key = [s_or(*[v for (j, k2), v in vmap.items() if k2 == k]) if any(k2 == k for (_, k2) in vmap) else False
               for k in range(len(t.keys))]
    auth = s_or(*[s_and(*[per_key[k] for k in sub]) for sub in itertools.combinations(range(len(t.keys)), t.need)])
    return auth, vmap


def _mval(v):
    if isinstance(v, SB):
        c = core.ctx()
        return core.model_bool(c.model, v.n, c.mode)
    return bool(v)


TXVARS = ("pidx", "seq", "value", "amount", "version", "locktime")


def attack_path(tmpl, m, n, ss, wit, n_in=1, idx=0):
    reset_path()
    t = Tmpl(tmpl, m, n)
    sp = Spend(t, parse_shape(ss), parse_shape(wit))
    tx = build_tx(t.spk, sp.ss, sp.wit, n_in, idx)
    try:
        ok = bool(tx.verify_input(idx))
    except Exception as e:
        check(True, "error")
        return "error:" + type(e).__name__
    if not ok:
        check(True, "rejected")
        return "rejected"
    cands = sp.candidates()
    annex = annex_of(sp.wit) if t.schnorr else None
    auth, vmap = authorisation(t, tx, idx, cands, annex)

    def wfn(env):
        ssd, wd = sp.describe(env)
        return {"template": tmpl, "m": m, "n": n, "n_in": n_in, "idx": idx, "scriptsig_shape": ss, "witness_shape": wit,
                "scriptsig": ssd, "witness": wd, "valid": sorted([j, k] for (j, k), v in vmap.items() if _mval(v)),
                "tx": dict({v: env[v] for v in TXVARS}, prev=core.bytes_env(env, "prev", 32).hex())}
    if sp.foreign:
        check(False, "a spend presenting a foreign script / control block is accepted", witness=wfn)
    else:
        check(auth, "accepted without authorisation", witness=wfn)
    return "accepted"


def ob_attack(tmpl, m, n, shapes, n_in=1, idx=0):
    runs = []
    for (ss, wit) in shapes:
        runs.append(sym_run(lambda: attack_path(tmpl, m, n, ss, wit, n_in, idx), timeout_ms=60000, max_violations=2))
    r = merge_runs(runs)
    r["sample"] = {"template": tmpl, "m": m, "n": n, "shapes": len(shapes), "example": {"scriptsig": shapes[0][0], "witness": shapes[0][1]},
                   "items": "symbolic bytes of the stated lengths; op = symbolic opcode from OP_0/OP_1/OP_NOP/OP_DROP/OP_DUP"}
    return r
