"""C04 — transaction wire codec, txid, fetcher (DESIGN.md section 3, C04)."""
import itertools

from symx import core, loader, shims
from symx.core import SI, SBytes, SHex, check, s_and, s_or, s_not, s_implies, norm, assume, bytes_env, Out, conc_value
from vlib.run import Ob, sym_run, merge_runs

PROPERTY = "C04"

META = {
    "bounds": {
        "quick": {"varint": "all integers in [0, 2^64+5]",
                  "script": "one push of length in {0,1,2,74,75,76,77,255,256,519,520,521} with symbolic content between two symbolic non-push "
                            "opcodes; arbitrary canonical raw scripts of <= 3 bytes",
                  "tx": "n_in x n_out in {0,1,2,3}^2, legacy and segwit, every field symbolic (version, outpoints, sequences, amounts in "
                        "[0,2^64), locktime, 0..3-byte push contents, witness items of length {0,1,2})",
                  "witness": "stacks of 0..3 items with lengths from {0,1,252,253}",
                  "fetcher": "legacy 1-in/1-out response whose scriptSig region is 0..3 arbitrary bytes; segwit 1-in/1-out response"},
        "thorough": {"varint": "same", "script": "every push length 0..521", "tx": "n_in, n_out in {0,1,2,3,252,253,300} (mixed pairs)",
                     "witness": "item lengths {0,1,252,253,65535,65536,70000}", "fetcher": "scriptSig region 0..4 bytes"}},
    "outside": ["TxFetcher.load_cache/dump_cache, sendrawtransaction", "scripts longer than 520-byte pushes / 10k bytes",
                "the empty push b'' and OP_0 are the same script and are identified when fields are compared"],
    "stubs": ["hash256 as an uninterpreted function on symbolic input", "urllib.request.urlopen returns an arbitrary (symbolic) response",
              "print() empty"],
    "assumptions": ["txid inequality after a non-witness edit assumes hash256 is injective on the two serialisations (collision resistance)"],
}

MANIFEST = {"technique": "symbolic execution of the real codec functions on symbolic field values; serialiser compared with an independent "
                         "byte-layout specification; z3 decides each path"}


def H():
    return loader.load("helper")


# ---------------------------------------------------------------------------------------- spec (independent byte layout)

def spec_varint(n):
    if n < 0xFD:
        return bytes([n])
    if n < 0x10000:
        return b"\xfd" + n.to_bytes(2, "little")
    if n < 0x100000000:
        return b"\xfe" + n.to_bytes(4, "little")
    return b"\xff" + n.to_bytes(8, "little")


def le(x, n):
    if isinstance(x, int):
        return x.to_bytes(n, "little")
    return core.wrap(core.lift(x)).to_bytes(n, "little")


def spec_push(data):
    L = len(data)
    if L == 0:
        return b"\x00"
    if L <= 75:
        return bytes([L]) + data
    if L <= 255:
        return b"\x4c" + bytes([L]) + data
    if L <= 65535:
        return b"\x4d" + L.to_bytes(2, "little") + data
    return b"\x4e" + L.to_bytes(4, "little") + data


def spec_script(cmds):
    out = b""
    for c in cmds:
        if isinstance(c, (int, SI)):
            out = out + bytes_of(c)
        else:
            out = out + spec_push(c)
    return out


def bytes_of(c):
    if isinstance(c, int):
        return bytes([c])
    return SBytes([c])


def spec_varstr(b):
    return spec_varint(len(b)) + b


def spec_tx(version, ins, outs, locktime, segwit, wits=None):
    """ins: list of (prev_tx_be, prev_index, script_cmds, sequence); outs: list of (amount, script_cmds)"""
    out = le(version, 4)
    if segwit:
        out = out + b"\x00\x01"
    out = out + spec_varint(len(ins))
    for (ptx, pidx, cmds, seq) in ins:
        out = out + ptx[::-1] + le(pidx, 4) + spec_varstr(spec_script(cmds)) + le(seq, 4)
    out = out + spec_varint(len(outs))
    for (amt, cmds) in outs:
        out = out + le(amt, 8) + spec_varstr(spec_script(cmds))
    if segwit:
        for w in wits:
            out = out + spec_varint(len(w))
            for item in w:
                out = out + spec_varstr(item)
    out = out + le(locktime, 4)
    return out


# ---------------------------------------------------------------------------------------- O1 varint

def ob_varint():
    h = H()
    nat = loader.native("helper")

    def p():
        i = SI.var("i", 0, (1 << 64) + 5)
        w = lambda env: {"i": env["i"]}  # noqa
        try:
            b = h.encode_varint(i)
        except RuntimeError:
            check(i >= (1 << 64), "encode_varint raises only at >= 2^64", witness=w)
            return Out("err", "err")
        check(i < (1 << 64), "encode_varint must refuse >= 2^64", witness=w)
        e = spec_varint_sym(i)
        check((len(b) == len(e)) and (b == e), "compact-size layout / minimal width", witness=w)
        s = shims.BytesIOShim(b)
        j = h.read_varint(s)
        check(j == i, "read_varint(encode_varint(i)) == i", witness=w)
        check(s.tell() == len(b), "read_varint consumes exactly the encoding", witness=w)
        vs = h.encode_varstr(b)
        s2 = shims.BytesIOShim(vs + b"\xaa")
        check(h.read_varstr(s2) == b, "read_varstr(encode_varstr(x)) == x", witness=w)
        return Out(len(b), b)

    def native(env):
        try:
            return nat.encode_varint(env["i"])
        except RuntimeError:
            return "err"
    r = sym_run(p, expect_classes=[1, 3, 5, 9, "err"],
                gen_env=lambda rng: {"i": rng.choice([0, 0xfc, 0xfd, 0xffff, 0x10000, 0xffffffff, 0x100000000, (1 << 64) - 1, 1 << 64,
                                                      rng.randrange(0, (1 << 64) + 6)])}, native=native, n_val=40)
    r["sample"] = {"i": "symbolic in [0, 2^64+5]"}
    return r


def spec_varint_sym(n):
    if n < 0xFD:
        return norm(SBytes([n]))
    if n < 0x10000:
        return b"\xfd" + n.to_bytes(2, "little")
    if n < 0x100000000:
        return b"\xfe" + n.to_bytes(4, "little")
    return b"\xff" + n.to_bytes(8, "little")


def replay_varint(w):
    from buidl import helper
    from io import BytesIO
    i = w["i"]
    try:
        b = helper.encode_varint(i)
    except RuntimeError:
        return {"violated": i < (1 << 64), "observed": f"encode_varint({i}) raised"}
    if i >= (1 << 64):
        return {"violated": True, "observed": f"encode_varint({i}) returned {b.hex()}"}
    s = BytesIO(b)
    j = helper.read_varint(s)
    bad = b != spec_varint(i) or j != i or s.tell() != len(b)
    return {"violated": bad, "observed": f"encode_varint({i}) = {b.hex()} (spec {spec_varint(i).hex()}), read back {j}"}


# ---------------------------------------------------------------------------------------- O2 script codec

NONPUSH = [0] + list(range(79, 256))


def cmds_equiv(a, b):
    """command lists equal, identifying b'' with OP_0 (the same script)"""
    if len(a) != len(b):
        return False
    conds = []
    for x, y in zip(a, b):
        xi = isinstance(x, (int, SI))
        yi = isinstance(y, (int, SI))
        if xi and yi:
            conds.append(x == y)
        elif xi or yi:
            i, o = (x, y) if xi else (y, x)
            if len(o) != 0:
                return False
            conds.append(i == 0)
        else:
            if len(x) != len(y):
                return False
            conds.append(x == y)
    return s_and(*conds) if conds else True


def _script_push_path(L):
    sc = loader.load("script")
    a = SI.var("op_a", 79, 255)
    b = SI.var("op_b", 79, 255)
    data = SBytes.sym("d", L) if L else b""
    cmds = [a, data, b]

    def wit(env):
        return {"cmds": [env["op_a"], bytes_env(env, "d", L).hex(), env["op_b"]]}
    s = sc.Script(list(cmds))
    try:
        raw = s.raw_serialize()
    except ValueError:
        check(L > 520, f"raw_serialize refuses a {L}-byte push (only > 520 may be refused)", witness=wit)
        return "refused"
    check(L <= 520, "raw_serialize must refuse pushes > 520 bytes", witness=wit)
    e = spec_script(cmds)
    check((len(raw) == len(e)) and (raw == e), f"serialisation of a {L}-byte push differs from the minimal-push layout", witness=wit)
    p = sc.Script.parse(shims.BytesIOShim(spec_varstr_any(raw)))
    check(cmds_equiv(p.commands, cmds), "parse(serialize(cmds)) != cmds", witness=wit)
    raw2 = p.raw_serialize()
    check((len(raw2) == len(raw)) and (raw2 == raw), "serialize(parse(raw)) != raw for canonical raw", witness=wit)
    return "ok"


def spec_varstr_any(b):
    return spec_varint(len(b)) + b


def ob_script_push(lengths):
    runs = [sym_run(lambda: _script_push_path(L)) for L in lengths]
    m = merge_runs(runs)
    m["sample"] = {"cmds": "[op_a, <L symbolic bytes>, op_b]", "L": list(lengths)[:12]}
    return m


def replay_script_push(w):
    from buidl import script
    from io import BytesIO
    cmds = [c if isinstance(c, int) else bytes.fromhex(c) for c in w["cmds"]]
    L = max(len(c) for c in cmds if not isinstance(c, int))
    try:
        raw = script.Script(list(cmds)).raw_serialize()
    except ValueError as e:
        return {"violated": L <= 520, "observed": f"raw_serialize raised {e!r} for a {L}-byte push"}
    if L > 520:
        return {"violated": True, "observed": f"{L}-byte push serialised"}
    e = spec_script(cmds)
    if raw != e:
        return {"violated": True, "observed": f"push {L}: got prefix {raw[:6].hex()} want {e[:6].hex()}"}
    p = script.Script.parse(BytesIO(spec_varstr_any(raw)))
    norm_ = lambda cs: [0 if c == b"" else c for c in cs]  # noqa
    bad = norm_(p.commands) != norm_(cmds) or p.raw_serialize() != raw
    return {"violated": bad, "observed": f"push {L}: parsed {len(p.commands)} commands"}


def canonical_script(raw):
    """is raw (bytes-like of ints/SI) a canonical script encoding: complete, minimally-encoded pushes only.
    Returns an SB/bool.  Only used for tiny lengths (<= 4), so PUSHDATA never is minimal."""
    n = len(raw)
    conds = []
    # walk all segmentations symbolically is overkill for n <= 4: enumerate push-structure by the first byte classes
    def rec(i):
        if i == n:
            return True
        b = raw[i]
        alts = []
        # non-push opcode
        alts.append(s_and(s_or(b == 0, b >= 79), rec(i + 1)))
        for k in range(1, n - i):
            alts.append(s_and(b == k, rec(i + 1 + k)))
        return s_or(*alts)
    return rec(0)


def complete_script(raw):
    """does the push structure of raw end exactly at its end (minimal or not)?  SB/bool; tiny lengths only"""
    n = len(raw)

    def rec(i):
        if i == n:
            return True
        if i > n:
            return False
        b = raw[i]
        alts = [s_and(s_or(b == 0, b >= 79), rec(i + 1))]
        for k in range(1, n - i):
            alts.append(s_and(b == k, rec(i + 1 + k)))
        for op, w in ((76, 1), (77, 2), (78, 4)):
            if i + w < n + 0 and i + 1 + w <= n:
                hi_zero = s_and(*[raw[i + 1 + j] == 0 for j in range(1, w)]) if w > 1 else True
                for k in range(0, n - i - w):
                    alts.append(s_and(b == op, raw[i + 1] == k, hi_zero, rec(i + 1 + w + k)))
        return s_or(*alts)
    return rec(0)


def _script_incomplete_path(n):
    """a script whose last push promises more bytes than the script holds (real coinbase scripts do this) is kept verbatim"""
    sc = loader.load("script")
    raw = SBytes.sym("r", n)
    assume(s_not(complete_script(raw)))
    wit = lambda env: {"raw": bytes_env(env, "r", n).hex()}  # noqa
    try:
        p = sc.Script.parse(shims.BytesIOShim(bytes([n]) + raw))
        out = p.raw_serialize()
    except core.Unsupported:
        raise
    except Exception as ex:
        check(True, "refused")
        return "refused:" + type(ex).__name__
    check((len(out) == n) and (out == raw), "serialize(parse(raw)) != raw for a script whose last push overruns its end", witness=wit)
    return "kept"


def ob_script_incomplete(maxn):
    runs = [sym_run(lambda: _script_incomplete_path(n), timeout_ms=60000) for n in range(1, maxn + 1)]
    m = merge_runs(runs)
    m["sample"] = {"raw": f"every byte string of length 1..{maxn} whose push structure overruns its end"}
    if "'kept'" not in m["classes"]:
        m["inconclusive"].append("reachability twin: no script kept verbatim")
    return m


def _script_raw_path(n):
    sc = loader.load("script")
    raw = SBytes.sym("r", n) if n else b""
    assume(canonical_script(raw))
    wit = lambda env: {"raw": bytes_env(env, "r", n).hex()}  # noqa
    p = sc.Script.parse(shims.BytesIOShim(bytes([n]) + raw))
    out = p.raw_serialize()
    check((len(out) == n) and (out == raw), "serialize(parse(raw)) != raw for canonical raw", witness=wit)
    return len(p.commands)


def ob_script_raw(maxn):
    runs = [sym_run(lambda: _script_raw_path(n)) for n in range(0, maxn + 1)]
    m = merge_runs(runs)
    m["sample"] = {"raw": f"arbitrary canonical script bytes, length 0..{maxn}"}
    return m


def replay_script_raw(w):
    from buidl import script
    from io import BytesIO
    raw = bytes.fromhex(w["raw"])
    p = script.Script.parse(BytesIO(bytes([len(raw)]) + raw))
    out = p.raw_serialize()
    return {"violated": out != raw, "observed": f"parse({raw.hex()}).raw_serialize() = {out.hex()}"}


# ---------------------------------------------------------------------------------------- O3/O4/O5 transactions

def _mk_fields(n_in, n_out, segwit, pushlens, witlens):
    ins, outs, wits = [], [], []
    for i in range(n_in):
        L = pushlens[i % len(pushlens)]
        cmds = [SBytes.sym(f"in{i}.push", L)] if L else []
        if i % 2 == 1:
            cmds = cmds + [0xAC]
        ins.append((SBytes.sym(f"in{i}.prev", 32), SI.var(f"in{i}.idx", 0, (1 << 32) - 1), cmds, SI.var(f"in{i}.seq", 0, (1 << 32) - 1)))
        wl = witlens[i % len(witlens)]
        wits.append([SBytes.sym(f"in{i}.w{j}", l) if l else b"" for j, l in enumerate(wl)])
    for i in range(n_out):
        L = pushlens[(i + 1) % len(pushlens)]
        cmds = [0x76, SBytes.sym(f"out{i}.push", L)] if L else [0x6A]
        outs.append((SI.var(f"out{i}.amt", 0, (1 << 64) - 1), cmds))
    return ins, outs, wits


def _build_tx(txm, scm, wim, version, ins, outs, locktime, segwit, wits):
    tx_ins = []
    for k, (ptx, pidx, cmds, seq) in enumerate(ins):
        ti = txm.TxIn(ptx, pidx, scm.Script(list(cmds)), seq)
        if segwit:
            ti.witness = wim.Witness(list(wits[k]))
        tx_ins.append(ti)
    tx_outs = [txm.TxOut(amt, scm.Script(list(cmds))) for (amt, cmds) in outs]
    return txm.Tx(version, tx_ins, tx_outs, locktime, network="mainnet", segwit=segwit)


def _fields_equal(tx, version, ins, outs, locktime, segwit, wits):
    conds = [tx.version == version, tx.locktime == locktime, tx.segwit == segwit, len(tx.tx_ins) == len(ins), len(tx.tx_outs) == len(outs)]
    if not all(isinstance(c, bool) and c or not isinstance(c, bool) for c in conds):
        return False
    for ti, (ptx, pidx, cmds, seq), k in zip(tx.tx_ins, ins, range(len(ins))):
        conds += [ti.prev_tx == ptx, ti.prev_index == pidx, ti.sequence == seq, cmds_equiv(ti.script_sig.commands, cmds)]
        if segwit:
            if len(ti.witness.items) != len(wits[k]):
                return False
            for a, b in zip(ti.witness.items, wits[k]):
                if len(a) != len(b):
                    return False
                conds.append(a == b)
    for to, (amt, cmds) in zip(tx.tx_outs, outs):
        conds += [to.amount == amt, cmds_equiv(to.script_pubkey.commands, cmds)]
    return s_and(*conds)


def _tx_path(n_in, n_out, segwit, pushlens, witlens):
    txm, scm, wim = loader.load("tx"), loader.load("script"), loader.load("witness")
    version = SI.var("version", 0, (1 << 32) - 1)
    locktime = SI.var("locktime", 0, (1 << 32) - 1)
    ins, outs, wits = _mk_fields(n_in, n_out, segwit, pushlens, witlens)

    def wit(env):
        return {"version": env["version"], "locktime": env["locktime"], "segwit": segwit,
                "ins": [[conc_value(p, env).hex(), conc_value(i, env), [c if isinstance(c, int) else conc_value(c, env).hex() for c in cm],
                         conc_value(s, env)] for (p, i, cm, s) in ins],
                "outs": [[conc_value(a, env), [c if isinstance(c, int) else conc_value(c, env).hex() for c in cm]] for (a, cm) in outs],
                "wits": [[conc_value(x, env).hex() for x in w] for w in wits], "n_in": n_in, "n_out": n_out}
    tx = _build_tx(txm, scm, wim, version, ins, outs, locktime, segwit, wits)
    raw = tx.serialize()
    e = spec_tx(version, ins, outs, locktime, segwit, wits)
    check((len(raw) == len(e)) and (raw == e), "Tx.serialize differs from the wire layout", witness=wit)
    try:
        back = txm.Tx.parse(shims.BytesIOShim(raw))
    except Exception as ex:
        check(False, f"parse(serialize(tx)) raised {type(ex).__name__}", witness=wit)
        return "parse-error"
    check(_fields_equal(back, version, ins, outs, locktime, segwit, wits), "parse(serialize(tx)) does not reproduce every field", witness=wit)
    raw2 = back.serialize()
    check((len(raw2) == len(raw)) and (raw2 == raw), "serialize(parse(raw)) != raw", witness=wit)
    # txid: hash of the witness-stripped serialisation, byte reversed
    legacy = spec_tx(version, ins, outs, locktime, False)
    hh = H().hash256(legacy)[::-1]
    check(tx.hash() == hh, "txid is not the reversed hash256 of the witness-stripped serialisation", witness=wit)
    check(back.hash() == hh, "txid of the parsed copy differs", witness=wit)
    if segwit and n_in:
        # any witness edit leaves the id unchanged
        tx.tx_ins[0].witness = wim.Witness([SBytes.sym("other.w", 3)])
        check(tx.hash() == hh, "txid changed by a witness edit", witness=wit)
    return "ok"


def ob_tx(n_in, n_out, segwit):
    pushlens = (0, 1, 3, 2)
    witlens = ((), (0,), (1, 2), (2, 0, 1))
    r = sym_run(lambda: _tx_path(n_in, n_out, segwit, pushlens, witlens), timeout_ms=60000, max_violations=12)
    r["sample"] = {"n_in": n_in, "n_out": n_out, "segwit": segwit, "fields": "all symbolic"}
    return r


def _real_tx_from_witness(w):
    from buidl import tx as txm, script as scm, witness as wim
    tx_ins = []
    for k, (p, i, cm, s) in enumerate(w["ins"]):
        ti = txm.TxIn(bytes.fromhex(p), i, scm.Script([c if isinstance(c, int) else bytes.fromhex(c) for c in cm]), s)
        if w["segwit"]:
            ti.witness = wim.Witness([bytes.fromhex(x) for x in w["wits"][k]])
        tx_ins.append(ti)
    tx_outs = [txm.TxOut(a, scm.Script([c if isinstance(c, int) else bytes.fromhex(c) for c in cm])) for (a, cm) in w["outs"]]
    return txm.Tx(w["version"], tx_ins, tx_outs, w["locktime"], segwit=w["segwit"])


def replay_tx(w):
    from buidl import tx as txm, helper
    from io import BytesIO
    tx = _real_tx_from_witness(w)
    raw = tx.serialize()
    ins = [(bytes.fromhex(p), i, [c if isinstance(c, int) else bytes.fromhex(c) for c in cm], s) for (p, i, cm, s) in w["ins"]]
    outs = [(a, [c if isinstance(c, int) else bytes.fromhex(c) for c in cm]) for (a, cm) in w["outs"]]
    wits = [[bytes.fromhex(x) for x in ww] for ww in w["wits"]]
    e = spec_tx(w["version"], ins, outs, w["locktime"], w["segwit"], wits)
    if raw != e:
        return {"violated": True, "observed": f"serialize {raw.hex()[:80]} != layout {bytes(e).hex()[:80]}"}
    try:
        back = txm.Tx.parse(BytesIO(raw))
    except Exception as ex:
        return {"violated": True, "observed": f"parse(serialize(tx)) raised {ex!r} (n_in={len(ins)}, n_out={len(outs)}, segwit={w['segwit']})"}
    if back.serialize() != raw:
        return {"violated": True, "observed": f"re-serialisation differs (n_in={len(ins)}, n_out={len(outs)}, segwit={w['segwit']}, parsed segwit={back.segwit})"}
    ok = _fields_equal(back, w["version"], ins, outs, w["locktime"], w["segwit"], wits)
    legacy = spec_tx(w["version"], ins, outs, w["locktime"], False)
    hid = helper.hash256(bytes(legacy))[::-1]
    bad = (not ok) or tx.hash() != hid or back.hash() != hid
    return {"violated": bool(bad), "observed": f"fields equal={bool(ok)} txid ok={tx.hash() == hid}"}


# ---- O5: non-witness edits change the id (under injectivity), as a structural statement: the hashed bytes differ

def _txid_edit_path(field):
    txm, scm, wim = loader.load("tx"), loader.load("script"), loader.load("witness")
    version = SI.var("version", 0, (1 << 32) - 1)
    locktime = SI.var("locktime", 0, (1 << 32) - 1)
    ins, outs, wits = _mk_fields(2, 2, True, (1, 2), ((1,), (0, 2)))
    tx = _build_tx(txm, scm, wim, version, ins, outs, locktime, True, wits)
    before = tx.serialize_legacy()
    # history: the id was asked for (and shown) before the edit, on the same object
    id0 = tx.hash()
    tx.id()
    check(id0 == H().hash256(before)[::-1], "txid before the edit", witness=lambda env: {"field": "none"})

    def wit(env):
        nvv = conc_value(nv, env)
        return {"field": field, "new": nvv.hex() if isinstance(nvv, (bytes, bytearray)) else nvv,
                "version": env["version"], "locktime": env["locktime"], "segwit": True,
                "ins": [[conc_value(p, env).hex(), conc_value(i, env), [c if isinstance(c, int) else conc_value(c, env).hex() for c in cm],
                         conc_value(s_, env)] for (p, i, cm, s_) in ins],
                "outs": [[conc_value(a, env), [c if isinstance(c, int) else conc_value(c, env).hex() for c in cm]] for (a, cm) in outs],
                "wits": [[conc_value(x, env).hex() for x in w] for w in wits]}
    if field == "version":
        nv = SI.var("new", 0, (1 << 32) - 1)
        assume(nv != version)
        tx.version = nv
    elif field == "locktime":
        nv = SI.var("new", 0, (1 << 32) - 1)
        assume(nv != locktime)
        tx.locktime = loader.load("timelock").Locktime(nv)
    elif field == "amount":
        nv = SI.var("new", 0, (1 << 64) - 1)
        assume(nv != outs[1][0])
        tx.tx_outs[1].amount = nv
    elif field == "sequence":
        nv = SI.var("new", 0, (1 << 32) - 1)
        assume(nv != ins[0][3])
        tx.tx_ins[0].sequence = loader.load("timelock").Sequence(nv)
    elif field == "prev_index":
        nv = SI.var("new", 0, (1 << 32) - 1)
        assume(nv != ins[1][1])
        tx.tx_ins[1].prev_index = nv
    elif field == "prev_tx":
        nv = SBytes.sym("newb", 32)
        assume(nv != ins[0][0])
        tx.tx_ins[0].prev_tx = nv
    elif field == "script":
        nv = SBytes.sym("newb", 2)
        assume(nv != outs[0][1][1])
        tx.tx_outs[0].script_pubkey = scm.Script([0x76, nv])
    after = tx.serialize_legacy()
    check((len(before) != len(after)) or (before != after), f"hashed bytes unchanged after editing {field}", witness=wit)
    check(tx.hash() == H().hash256(after)[::-1], f"txid asked for again after editing {field} on the same object is not the hash of its current "
          "witness-stripped bytes", witness=wit)
    check(tx.id() == tx.hash().hex(), "id() is not the hex of hash() after an edit", witness=wit)
    return "ok"


def ob_txid_edits():
    runs = [sym_run(lambda: _txid_edit_path(f)) for f in ("version", "locktime", "amount", "sequence", "prev_index", "prev_tx", "script")]
    m = merge_runs(runs)
    m["sample"] = {"edit": "any different value of version/locktime/amount/sequence/prev_index/prev_tx/script on a 2-in 2-out tx"}
    return m


def replay_txid_edit(w):
    if "ins" not in w:
        return {"violated": False, "observed": "structural obligation; no concrete replay recipe"}
    from buidl import helper, script as scm, timelock
    tx = _real_tx_from_witness(w)
    before = tx.serialize_legacy()
    id0, shown = tx.id(), repr(tx)
    f, nv = w["field"], w["new"]
    if f == "version":
        tx.version = nv
    elif f == "locktime":
        tx.locktime = timelock.Locktime(nv)
    elif f == "amount":
        tx.tx_outs[1].amount = nv
    elif f == "sequence":
        tx.tx_ins[0].sequence = timelock.Sequence(nv)
    elif f == "prev_index":
        tx.tx_ins[1].prev_index = nv
    elif f == "prev_tx":
        tx.tx_ins[0].prev_tx = bytes.fromhex(nv)
    elif f == "script":
        tx.tx_outs[0].script_pubkey = scm.Script([0x76, bytes.fromhex(nv)])
    after = tx.serialize_legacy()
    want = helper.hash256(after)[::-1].hex()
    bad = after == before or tx.id() != want or tx.hash().hex() != want
    return {"violated": bool(bad), "observed": f"segwit tx whose id() was {id0}; after setting {f} = {nv!r} the witness-stripped bytes "
                                               f"{'changed' if after != before else 'did not change'}, id() = {tx.id()}, hash256 of the current bytes = {want}"}


# ---- O3b: outputs shaped like the standard templates (ScriptPubKey.parse re-types these on the way in)

TEMPLATES = {
    "op,push32": ("o", 32),                 # p2wsh / p2tr / future witness versions
    "op,push20": ("o", 20),                 # p2wpkh
    "op,push2..40": ("o", None),            # other witness program lengths
    "op,op,push20,op,op": ("o", "o", 20, "o", "o"),   # p2pkh
    "op,push20,op": ("o", 20, "o"),         # p2sh
}


def _template_path(shape, plen):
    """a 1-in 1-out transaction (legacy wire form) whose output script is <opcode(s)> around one push, every opcode an arbitrary
    non-push byte (0x00 or 0x4f..0xff) and the payload arbitrary: parse -> serialize must give the bytes back and the id must be
    their hash"""
    txm = loader.load("tx")
    items = []
    k = 0
    for part in TEMPLATES[shape]:
        if part == "o":
            o = SI.var(f"op{k}", 0, 0xFF)
            assume(s_or(o == 0, o >= 0x4F))
            items.append(o)
            k += 1
        else:
            n = part if part is not None else plen
            items.append(n)
            items += SBytes.sym("payload", n).items
    script = SBytes(items)
    amt = SBytes.sym("amt", 8)
    raw = (b"\x01\x00\x00\x00" + b"\x01" + b"\x11" * 32 + b"\x00\x00\x00\x00" + b"\x00" + b"\xfe\xff\xff\xff"
           + b"\x01" + amt + bytes([len(script)]) + script + b"\x00\x00\x00\x00")
    wit = lambda env: {"raw": conc_value(raw, env).hex()}  # noqa
    try:
        tx = txm.Tx.parse(shims.BytesIOShim(raw))
    except Exception as ex:
        check(False, f"Tx.parse raised {type(ex).__name__} on a well-formed transaction", witness=wit)
        return "parse-error"
    out = tx.serialize()
    check((len(out) == len(raw)) and (out == raw), "serialize(parse(raw)) != raw for an output shaped like a standard template", witness=wit)
    sp = tx.tx_outs[0].script_pubkey.raw_serialize()
    check((len(sp) == len(script)) and (sp == script), "the parsed output script is not the script on the wire", witness=wit)
    check(tx.hash() == H().hash256(raw)[::-1], "txid is not the hash of the bytes parsed", witness=wit)
    return type(tx.tx_outs[0].script_pubkey).__name__


def ob_templates(shape, plens=(None,)):
    runs = [sym_run(lambda: _template_path(shape, pl), max_violations=12) for pl in plens]
    m = merge_runs(runs)
    m["sample"] = {"shape": shape, "opcodes": "0x00 or 0x4f..0xff, symbolic", "payload": "symbolic", "classes": m["classes"]}
    return m


def replay_template(w):
    from buidl import tx as txm, helper
    from io import BytesIO
    raw = bytes.fromhex(w["raw"])
    try:
        tx = txm.Tx.parse(BytesIO(raw))
    except Exception as ex:
        return {"violated": True, "observed": f"Tx.parse({raw.hex()}) raised {ex!r}"}
    out = tx.serialize()
    want = helper.hash256(raw)[::-1].hex()
    return {"violated": out != raw or tx.id() != want,
            "observed": f"raw {raw.hex()} -> parse -> serialize {'identical' if out == raw else out.hex()}; output script parsed as "
                        f"{type(tx.tx_outs[0].script_pubkey).__name__}; id() {'ok' if tx.id() == want else 'is not the hash of the raw bytes'}"}


# ---- O4 witness codec

def _witness_path(lens):
    wim = loader.load("witness")
    items = [SBytes.sym(f"w{j}", L) if L else b"" for j, L in enumerate(lens)]
    wit = lambda env: {"items_len": list(lens)}  # noqa
    w = wim.Witness(list(items))
    raw = w.serialize()
    e = spec_varint(len(items))
    for it in items:
        e = e + spec_varstr(it)
    check((len(raw) == len(e)) and (raw == e), "witness layout", witness=wit)
    back = wim.Witness.parse(shims.BytesIOShim(raw + b"\x99"))
    ok = len(back.items) == len(items) and all(len(a) == len(b) for a, b in zip(back.items, items))
    check(ok and s_and(*[a == b for a, b in zip(back.items, items)]), "Witness.parse(serialize(w)) != w", witness=wit)
    return "ok"


def ob_witness(lenset, maxitems):
    runs = []
    for n in range(0, maxitems + 1):
        for lens in itertools.product(lenset, repeat=n):
            if n == maxitems and len(set(lens)) == 1 and lens[0] > 1000:
                continue
            runs.append(sym_run(lambda: _witness_path(lens)))
    m = merge_runs(runs)
    m["sample"] = {"item_lengths": list(lenset), "max_items": maxitems}
    return m


def replay_witness(w):
    from buidl import witness
    from io import BytesIO
    items = [bytes([i & 0xFF]) * L for i, L in enumerate(w["items_len"])]
    wobj = witness.Witness(list(items))
    raw = wobj.serialize()
    back = witness.Witness.parse(BytesIO(raw))
    return {"violated": back.items != items, "observed": f"lengths {w['items_len']}"}


# ---- O6 fetcher

class SymStr(str):
    """a str whose content is a symbolic hex payload (dict key / URL formatting use the concrete placeholder)"""
    def __new__(cls, placeholder, payload):
        o = str.__new__(cls, placeholder)
        o.b = payload
        return o

    def __eq__(self, o):
        if isinstance(o, SHex):
            return o.b == self.b
        if isinstance(o, SymStr):
            return self.b == o.b
        return False

    def __ne__(self, o):
        r = self.__eq__(o)
        return core.s_not(r)

    __hash__ = str.__hash__


class _Resp:
    def __init__(self, payload):
        self.payload = payload

    def read(self):
        return self

    def decode(self, enc):
        return self

    def strip(self):
        return SHex(self.payload)


def _fetch_path(kind, nscript):
    txm = loader.load("tx")
    txm.TxFetcher.cache = {}
    if kind == "legacy":
        # version | 01 | prev(32) idx(4) | len script(nscript arbitrary bytes) seq(4) | 01 | amt(8) 01 6a | locktime
        raw = SBytes.sym("ver", 4) + b"\x01" + SBytes.sym("prev", 36) + bytes([nscript]) + (SBytes.sym("scr", nscript) if nscript else b"") \
            + SBytes.sym("seq", 4) + b"\x01" + SBytes.sym("amt", 8) + b"\x01\x6a" + SBytes.sym("lt", 4)
    else:
        raw = SBytes.sym("ver", 4) + b"\x00\x01\x01" + SBytes.sym("prev", 36) + bytes([nscript]) + (SBytes.sym("scr", nscript) if nscript else b"") \
            + SBytes.sym("seq", 4) + b"\x01" + SBytes.sym("amt", 8) + b"\x01\x6a" + b"\x01\x02" + SBytes.sym("wit", 2) + SBytes.sym("lt", 4)
    raw = core.sbytes(raw)
    want = SBytes.sym("id", 32)
    tx_id = SymStr("ab" * 32, want)
    shims.set_env(urlopen=lambda req: _Resp(raw))

    def wit(env):
        return {"raw": conc_value(raw, env).hex(), "kind": kind, "scr": bytes_env(env, "scr", nscript).hex()}
    try:
        tx = txm.TxFetcher.fetch(tx_id, network="mainnet", fresh=True)
    except (RuntimeError, ValueError, IOError, IndexError, KeyError) as ex:
        # history: a rejected response must not be served by a later (cached) fetch of the same id
        try:
            again = txm.TxFetcher.fetch(tx_id, network="mainnet", fresh=False)
        except (RuntimeError, ValueError, IOError, IndexError, KeyError):
            check(True, "rejected")
            return "rejected:" + type(ex).__name__
        check(again.id() == tx_id, "a response rejected by the integrity check is returned by the next (cached) fetch of that id",
              witness=lambda env: dict(wit(env), history="rejected-then-cached"))
        return "rejected-then-served"
    got = tx.id()
    check(got == tx_id, "the transaction returned by the fetcher does not hash to the requested id", witness=wit)
    # cache reuse: the second call returns the same object
    tx2 = txm.TxFetcher.fetch(tx_id, network="mainnet", fresh=False)
    check(tx2 is tx, "cached fetch returned a different object", witness=wit)
    return "accepted"


def ob_fetcher(kind, maxscript):
    runs = [sym_run(lambda: _fetch_path(kind, n), timeout_ms=60000) for n in range(0, maxscript + 1)]
    m = merge_runs(runs)
    m["sample"] = {"response": f"{kind} 1-in/1-out transaction, scriptSig region 0..{maxscript} arbitrary bytes, everything else symbolic"}
    if "'accepted'" not in m["classes"]:
        m["inconclusive"].append("reachability twin: no accepting path")
    return m


def replay_fetch(w):
    """serve the witness bytes for the id they hash to; the returned object must hash to the requested id"""
    import buidl.tx as txm
    from buidl import helper
    from io import BytesIO
    raw = bytes.fromhex(w["raw"])
    # the id a client would have to request for the integrity check to pass
    probe = txm.Tx.parse(BytesIO(raw))
    tx_id = probe.id() if probe.segwit else helper.hash256(raw)[::-1].hex()

    class R:
        def read(self):
            return raw.hex().encode()
    orig = txm.urlopen
    txm.urlopen = lambda req: R()
    txm.TxFetcher.cache = {}
    try:
        if w.get("history") == "rejected-then-cached":
            # ask for an id the response does NOT hash to: first call must raise, the second (cached) call must not serve it
            wrong = "00" * 31 + "01"
            try:
                txm.TxFetcher.fetch(wrong, fresh=True)
                return {"violated": True, "observed": "a response for another id was accepted"}
            except Exception:
                pass
            try:
                again = txm.TxFetcher.fetch(wrong, fresh=False)
            except Exception as ex:
                return {"violated": False, "observed": f"second fetch raised {ex!r}"}
            return {"violated": again.id() != wrong, "observed": f"second fetch of {wrong} returned an object hashing to {again.id()}"}
        try:
            tx = txm.TxFetcher.fetch(tx_id, fresh=True)
        except Exception as ex:
            return {"violated": False, "observed": f"rejected {ex!r}"}
        return {"violated": tx.id() != tx_id, "observed": f"requested {tx_id}, returned object hashes to {tx.id()}; raw={raw.hex()}"}
    finally:
        txm.urlopen = orig


# ---------------------------------------------------------------------------------------- registry

def obligations(tier):
    q = tier == "quick"
    obs = [Ob("O1-varint", ob_varint, replay="varint")]
    obs.append(Ob("O2-script-incomplete", ob_script_incomplete, {"maxn": 3 if q else 5}, replay="script_raw", budget_s=900))
    lens = [0, 1, 2, 74, 75, 76, 77, 255, 256, 519, 520, 521] if q else list(range(0, 522))
    chunk = 4 if q else 35
    for i in range(0, len(lens), chunk):
        obs.append(Ob("O2-script-push", ob_script_push, {"lengths": tuple(lens[i:i + chunk])}, replay="script_push"))
    obs.append(Ob("O2-script-raw", ob_script_raw, {"maxn": 3 if q else 4}, replay="script_raw", budget_s=1200))
    counts = [0, 1, 2, 3] if q else [0, 1, 2, 3, 252, 253, 300]
    for n_in in counts:
        for n_out in counts:
            if n_in > 3 and n_out > 3 and (n_in, n_out) not in ((252, 253), (300, 300)):
                continue
            for seg in (False, True):
                obs.append(Ob("O3-tx", ob_tx, {"n_in": n_in, "n_out": n_out, "segwit": seg}, replay="tx", budget_s=1500))
    obs.append(Ob("O4-witness", ob_witness, {"lenset": (0, 1, 252, 253) if q else (0, 1, 252, 253, 65535, 65536, 70000), "maxitems": 3 if q else 2},
                  replay="witness", budget_s=1500))
    obs.append(Ob("O5-txid-edits", ob_txid_edits, replay="txid_edit"))
    for shape in TEMPLATES:
        plens = (None,)
        if shape == "op,push2..40":
            plens = (2, 21, 33, 40) if q else (2, 3, 19, 21, 31, 33, 40, 41)
        obs.append(Ob("O3-output-templates", ob_templates, {"shape": shape, "plens": plens}, replay="template"))
    for kind in ("legacy", "segwit"):
        obs.append(Ob("O6-fetcher", ob_fetcher, {"kind": kind, "maxscript": 3 if q else 4}, replay="fetch", budget_s=1500))
    return obs
